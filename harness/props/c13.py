"""C13 — Derivation is a pure function of root key and path, whatever happened before."""
import sys
import threading
from .common import *  # noqa: F401,F403
from . import common
import impl

PID = "C13"
LEAN_MODULES = ["BtcHd.Props.C13"]
TRUSTED_BASE = common.CORE_TRUSTED + [
    "thread schedules below the granularity of one API call are not modelled: CPython's atomic list.append and "
    "re-entrant hashlib/ecdsa are trusted; the multi-threaded run only samples schedules"]
ASSUMPTIONS = ["CPython executes list.append and attribute reads atomically under the GIL"]
RULE = ("random histories (5-60 ops quick, up to 400 thorough) of by-path lookup, ckd, bulk generation, derive_path, "
        "address/ext-key/BIP85/report/Wasabi/root requests and address generators with and without send, on shared "
        "objects; each history is also re-run stateless (fresh objects per request) and multi-threaded; "
        "non-trivial = distinct history with at least 3 successful node-creating ops")
H = 2 ** 31
KINDS = ["p2pkh", "p2wpkh", "p2sh_p2wpkh", "p2wsh", "p2sh_p2wsh"]


def gen_history(rng, n, watch=False):
    """ops referring only to handles that will exist; tracks successes optimistically (failures are fine)"""
    ops = []
    nh, ng = 1, 0
    idxs = [0, 1, 2, 5, 2 ** 31 - 1] + ([] if watch else [H, H + 1, H + 44, 2 ** 32 - 1])
    for _ in range(n):
        r = rng.random()
        if r < 0.12:
            comps = [rng.choice(["0", "1", "2", "7"] + ([] if watch else ["44'", "0'", "1h", "84'"]))
                     for _ in range(rng.randint(0, 5))]
            ops.append("bp:" + sx("/".join(["M" if watch else "m"] + comps)))
            nh += 1 if comps else 0
        elif r < 0.3:
            ops.append("ckd:%d:%d" % (rng.randrange(nh), rng.choice(idxs)))
            nh += 1
        elif r < 0.38:
            a = rng.choice([0, 1, 5])
            b = a + rng.randint(0, 3)
            ops.append("gc:%d:%d:%d" % (rng.randrange(nh), a, b))
            nh += b - a
        elif r < 0.46:
            is_ = [rng.choice(idxs) for _ in range(rng.randint(0, 3))]
            ops.append("dp:%d:%s" % (rng.randrange(nh), impl.lst(str, is_)))
            nh += 1 if is_ else 0
        elif r < 0.6:
            ops.append("ad:%d:%s" % (rng.randrange(nh), rng.choice(KINDS)))
        elif r < 0.68:
            ops.append("xk:%d" % rng.randrange(nh))
        elif r < 0.74:
            ops.append("ng:%d:%s" % (rng.randrange(nh), rng.choice(KINDS)))
            ng += 1
        elif r < 0.86 and ng:
            g = rng.randrange(ng)
            ops.append(rng.choice(["nx:%d" % g, "nx:%d" % g, "sd:%d:%d" % (g, rng.choice([0, 1, 2, 3, 10]))]))
        elif r < 0.9 and not watch:
            ops.append("b85:%d:%d:%d" % rng.choice([(0, 12, 0), (1, 0, 1), (2, 0, 0), (3, 32, 5), (4, 21, 2), (1, 0, -1)]))
        elif r < 0.93 and not watch:
            ops.append("rep:%d:%d:%d" % (rng.choice([0, 1]), 0, rng.choice([0, 1, 2])))
        elif r < 0.96 and not watch:
            ops.append("was")
        elif r < 0.98:
            ops.append("nw:" + rng.choice("01"))
        else:
            ops.append("root")
    return ops


def wspec(rng):
    t = rng.choice("01")
    e = bytes(rng.getrandbits(8) for _ in range(16)).hex()
    return "ent:%s:-:-:%s" % (sx(e), t)


def cases(rng, tier):
    n_hist = 12 if tier == "quick" else 300
    for i in range(n_hist):
        w = wspec(rng)
        watch = rng.random() < 0.25
        if watch:
            full = impl.make_wallet(w)
            node = full.master.derive_path([44 + H, H, H])
            w = "xkey:" + sx(node.extended_public_key())
        n = rng.randint(5, 60) if tier == "quick" else rng.randint(5, 400 if i % 10 == 0 else 80)
        yield "hist %s %s" % (w, ";".join(gen_history(rng, n, watch))), "history-watch" if watch else "history"
    yield from _collision_cases(rng, tier)


def _collision_cases(rng, tier):
    """the SAME history on wallets whose root keys share the 4-byte fingerprint and the chain code (private and
    watch-only), back to back in one process: nothing may be remembered under the fingerprint"""
    from .c09 import point, sec_c
    pairs = common.fp_pairs()
    pairs = pairs[:1] if tier == "quick" else pairs[:8]
    for ka, kb in pairs:
        chain = bytes(rng.getrandbits(8) for _ in range(32))
        for watch in (False, True):
            ops = ";".join(gen_history(rng, rng.randint(8, 25), watch))
            for k in (ka, kb, ka):
                if watch:
                    x, y = point(k)
                    xk = common.xkey_string(0x0488B21E, 0, bytes(4), 0, chain, sec_c(x, y))
                else:
                    xk = common.xkey_string(0x0488ADE4, 0, bytes(4), 0, chain, b"\x00" + k.to_bytes(32, "big"))
                yield "hist xkey:%s %s" % (sx(xk), ops), "history-fp-collision" + ("-watch" if watch else "")


def nontrivial(line, out):
    return out.count(" N ") + out.startswith("ok N ") >= 3


def stateless(wspec_, ops):
    """Answer every request from FRESH objects: a new wallet per op; node handles are replaced by
    the recorded index path from the root (derived step by step on the fresh wallet)."""
    shared = impl.HistCtx(impl.make_wallet(wspec_))
    paths = [[]]                      # path of every handle
    gens = []                         # (path, kind, started, index, dead)
    outs = []
    for o in ops:
        t = o.split(":")
        k = t[0]
        fresh = impl.HistCtx(impl.make_wallet(wspec_))

        def node_at(p):
            return fresh.w.master.derive_path(p)
        try:
            if k == "bp":
                res = fresh.do(o)
                if res != "err":
                    lv = fresh.nodes[-1]
                    from btc_hd_wallet.wallet_utils import Bip32Path
                    p = Bip32Path.parse(unstr(t[1])).to_list()
                    if p:
                        paths.append(p)
            elif k in ("ckd", "dp", "gc", "ad", "xk"):
                h = int(t[1])
                fresh.nodes = [node_at(paths[h])] if h < len(paths) else []
                res = fresh.do(":".join([k, "0"] + t[2:]))
                if res != "err":
                    if k == "ckd":
                        paths.append(paths[h] + [int(t[2])])
                    elif k == "dp" and impl.unlist(int, t[2]):
                        paths.append(paths[h] + impl.unlist(int, t[2]))
                    elif k == "gc":
                        for i in range(int(t[2]), int(t[3])):
                            paths.append(paths[h] + [i])
            elif k == "ng":
                h = int(t[1])
                if h < len(paths):
                    gens.append([paths[h], t[2], False, 0, False])
                    res = "g%d" % (len(gens) - 1)
                else:
                    res = "err"
            elif k in ("nx", "sd"):
                g = gens[int(t[1])]
                sent = int(t[2]) if k == "sd" else None
                if g[4] or (not g[2] and sent is not None):
                    res = "err"
                else:
                    idx = (g[3] + ((sent or 1) if sent is not None else 1)) if g[2] else 0
                    try:
                        child = node_at(g[0]).ckd(idx)
                        res = "p%s %s" % (sx(str(child)), sx(impl.addr_fn(fresh.w, g[1])(child)))
                        g[2], g[3] = True, idx
                    except Exception:
                        g[4] = True
                        res = "err"
            elif k == "nw":
                res = fresh.do("root")
            else:
                res = fresh.do(o)
        except Exception:
            res = "err"
        outs.append(res)
    return outs


def oracle(line, out):
    tok = line.split(" ")
    if tok[0] != "hist":
        return None
    v = ok_val(out)
    if v is None:
        return "history could not be run"
    ops = tok[2].split(";")
    got = v.split(" ; ")
    want = stateless(tok[1], ops)
    for i, (a, b) in enumerate(zip(got, want)):
        if a != b:
            return "request %d (%s) answered differently on shared objects than from fresh ones: %s vs %s" % (
                i, ops[i], a[:80], b[:80])
    # root key unchanged
    w = impl.make_wallet(tok[1])
    before = impl.nodeS(w.master)
    impl.hist_run(w, ops)
    if impl.nodeS(w.master) != before:
        return "a request altered the root key"
    return None


def extra_checks(rng, tier, g, info):
    """Multi-threaded variant: 2-8 threads run their own histories on ONE shared wallet object; each thread's
    outputs must equal the stateless answers."""
    n_runs = 3 if tier == "quick" else 40
    old = sys.getswitchinterval()
    sys.setswitchinterval(1e-6)
    total = 0
    try:
        for _ in range(n_runs):
            ws = wspec(rng)
            w = impl.make_wallet(ws)
            nthreads = rng.randint(2, 8)
            hists = [gen_history(rng, rng.randint(5, 40)) for _ in range(nthreads)]
            outs = [None] * nthreads
            barrier = threading.Barrier(nthreads)

            def work(i):
                ctx = impl.HistCtx(w)
                barrier.wait()
                outs[i] = [ctx.do(o) for o in hists[i]]
            ts = [threading.Thread(target=work, args=(i,)) for i in range(nthreads)]
            for t in ts:
                t.start()
            for t in ts:
                t.join()
            for i in range(nthreads):
                total += len(hists[i])
                want = stateless(ws, hists[i])
                for j, (a, b) in enumerate(zip(outs[i], want)):
                    if a != b:
                        yield ("hist %s %s" % (ws, ";".join(hists[i])),
                               "thread %d/%d: request %d (%s) answered differently under concurrency: %s vs %s" % (
                                   i, nthreads, j, hists[i][j], a[:60], b[:60]))
                        break
    finally:
        sys.setswitchinterval(old)
    info["threaded_ops"] = total


known_match = common.no_known
