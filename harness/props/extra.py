"""Cases for the operations of Model/Extra.lean (the parts of the library no listed property speaks about:
chunks, Merkle helpers, Script __add__/__eq__/__repr__, Version helper lists, path predicates, __eq__ methods,
from_xprv, pprint/export texts).  They are distributed over the property checks by topic; they have no property
oracle (correspondence only) — their laws are the theorems of Props/Extra.lean."""
from .common import *  # noqa: F401,F403
import impl


def hashS(b):
    return "h" + bytes(b).hex()


def cases_for(topic, rng, tier):
    n = 1 if tier == "quick" else 20
    rb = lambda k: bytes(rng.getrandbits(8) for _ in range(k))
    if topic == "script":
        for _ in range(20 * n):
            xs = [rng.randrange(100) for _ in range(rng.randint(0, 13))]
            yield "chunks %d %s" % (rng.randint(0, 6), impl.lst(str, xs)), "x-chunks"
        for k in list(range(0, 10)) * n:
            hs = [rb(rng.choice([0, 1, 2, 32])) for _ in range(k)]
            yield "merkle_level " + impl.lst(hashS, hs), "x-merkle-level"
            yield "merkle_root " + impl.lst(hashS, hs), "x-merkle-root"
        yield "merkle_parent %s %s" % (hx(rb(32)), hx(rb(32))), "x-merkle-parent"
        ops = [1, 75, 76, 77, 78, 79, 80, 81, 96, 98, 118, 135, 136, 169, 172, 174, 186, 187, 255, 256, 300, 0]
        lens = [0, 1, 20, 75, 76, 255, 256, 520, 521]

        def rscript():
            return [rng.choice(ops) if rng.random() < 0.6 else rb(rng.choice(lens)) for _ in range(rng.randint(0, 4))]
        for _ in range(25 * n):
            a, b = rscript(), rscript()
            yield "scr_add %s %s" % (impl.lst(impl.cmdS, a), impl.lst(impl.cmdS, b)), "x-scr-add"
            yield "scr_eq %s %s" % (impl.lst(impl.cmdS, a), impl.lst(impl.cmdS, rng.choice([a, b]))), "x-scr-eq"
            yield "scr_repr " + impl.lst(impl.cmdS, a), "x-scr-repr"
        for _ in range(40 * n):
            ln = rng.choice([0, 1, 2, 4, 8, 32, 33])
            v = rng.choice([0, 1, 255, 256, 256 ** ln - 1 if ln else 0, 256 ** ln, rng.getrandbits(8 * ln + 3)])
            yield "i2be %d %d" % (v, ln), "x-int-bytes"
            yield "i2le %d %d" % (v, ln), "x-int-bytes"
            b_ = rb(rng.choice([0, 1, 2, 8, 32, 33]))
            yield "be2i " + hx(b_), "x-bytes-int"
            yield "le2i " + hx(b_), "x-bytes-int"
    elif topic == "b32addr":
        for _ in range(20 * n):
            kind = rng.choice(["p2pkh", "p2sh", "p2wpkh", "p2wsh"])
            h = rb(rng.choice([20, 32, 20, 32, 0, 1, 19, 21, 40, 41]))
            wv = rng.choice([0, 0, 0, 1, 16, 17])
            yield "h_addr %s %s %s %d" % (kind, hx(h), rng.choice("01"), wv), "x-helper-address"
        import btc_hd_wallet.bech32 as b
        for _ in range(15 * n):
            hrp = rng.choice(["bc", "tb", "bcrt", "x"])
            v = rng.choice([0, 1, 16])
            a = b.encode(hrp, v, rb(rng.choice([20, 32]) if v == 0 else rng.choice([2, 20, 32, 40])))
            if a is None:
                continue
            s = rng.choice([a, a.upper(), a[:-1] + ("q" if a[-1] != "q" else "p"), a[:3].upper() + a[3:]])
            yield "b32_addr " + sx(s), "x-b32-addr"
        yield "b32_addr -", "x-b32-addr"
    elif topic == "versions":
        for w in ("main", "test", "prv", "pub"):
            yield "ver_list " + w, "x-ver-list"
        for nme in ("PRV", "PUB", "prv", "XYZ"):
            yield "ver_keys " + sx(nme), "x-ver-keys"
        for b_ in ("44", "49", "84"):
            yield "ver_data " + b_, "x-ver-data"
    elif topic == "paths":
        comps = ["0", "1", "44'", "49'", "84h", "0'", "1'", "1h", "2147483647", "5", "", "x"]
        for _ in range(30 * n):
            mk = lambda: "/".join([rng.choice(["m", "M"])] + [rng.choice(comps) for _ in range(rng.randint(0, 6))])
            a = mk()
            yield "path_pred " + sx(a), "x-path-pred"
            yield "path_eq %s %s" % (sx(a), sx(rng.choice([a, a.replace("'", "h"), a + "/", mk()]))), "x-path-eq"
        for _ in range(5 * n):
            xs = [rng.randrange(9) for _ in range(rng.randint(0, 5))]
            yield "list_get %s %d" % (impl.lst(str, xs), rng.randint(0, 6)), "x-list-get"
    elif topic == "bip85obj":
        from .c12 import master_spec, REF_XPRV
        for _ in range(4 * n):
            a = master_spec(rng)
            b_ = rng.choice([a, master_spec(rng)])
            yield "b85_eq %s %s %s %s" % (a, rng.choice("01"), b_, rng.choice("01")), "x-b85-eq"
        k = hx((7).to_bytes(32, "big"))
        yield ("b85_eq P:%s:%s:0:0:0:none 0 P:00%s:%s:0:0:0:00000000 0" % (k, "11" * 32, k, "11" * 32)), "x-b85-eq-forms"
        for t in "01":
            yield "b85_from_xprv %s %s" % (sx(REF_XPRV), t), "x-b85-from-xprv"
        yield "b85_from_xprv %s 0" % sx(REF_XPRV[:-1] + "1"), "x-b85-from-xprv-bad"
    elif topic == "walleteq":
        from .c06 import wspecs
        ws = wspecs(rng, 3 * n)
        for a in ws:
            b_ = rng.choice([a, rng.choice(ws), a[:-1] + ("1" if a[-1] == "0" else "0")])
            yield "wallet_eq %s %s" % (a, b_), "x-wallet-eq"
    elif topic == "keyeq":
        from .c09 import point, sec_c, sec_u
        for _ in range(6 * n):
            k1, k2 = rng.randrange(1, N), rng.randrange(1, N)
            yield "priv_eq %s %s" % (hx(k1.to_bytes(32, "big")), hx(rng.choice([k1, k2]).to_bytes(32, "big"))), "x-priv-eq"
            x, y = point(k1)
            x2, y2 = point(k2)
            yield "pub_eq %s %s" % (hx(sec_c(x, y)), hx(rng.choice([sec_u(x, y), sec_c(x2, y2)]))), "x-pub-eq"
        yield "priv_eq %s %s" % (hx(bytes(32)), hx((1).to_bytes(32, "big"))), "x-priv-eq-invalid"
    elif topic == "papertext":
        from .c06 import wspecs
        for w in wspecs(rng, 2 * n):
            for kind in ("json", "pprint", "export"):
                yield "paper_text %s %s %s %s" % (kind, w, rng.choice(["0:0:1", "1:2:2", "empty", "0:0:2"]),
                                                  rng.choice(["-", "4", "0", "2"])), "x-paper-text"
            yield "wasabi_text %s %s" % (w, rng.choice(["-", "4"])), "x-wasabi-text"
        yield "paper_text pprint %s - 4" % wspecs(rng, 1)[0], "x-paper-text-default"
