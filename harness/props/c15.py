"""C15 — Paranoia mode output contains no secret and leaves public data unchanged."""
from .common import *  # noqa: F401,F403
from . import common
from .c06 import wspecs, intervals, from_canon, master_of, check_report
from .c03 import indep_master
import impl

PID = "C15"
LEAN_MODULES = ["BtcHd.Props.C15"]
LEAN_MODULES_THOROUGH = ['BtcHd.Props.TrPaper', 'BtcHd.Props.TrText']
TRUSTED_BASE = common.CORE_TRUSTED
ASSUMPTIONS = ["secrets are identified by position and by decodability as a private-key encoding (see DESIGN §5 C15)"]
RULE = "as C06, through paranoia_mode; non-trivial = distinct filtered report with at least one row"
H = 2 ** 31
PRV_VERSIONS = {0x0488ADE4, 0x049D7878, 0x04B2430C, 0x04358394, 0x044A4E28, 0x045F18BC}


def literal_ops(lit):
    w = "seedb:%s:%s" % (hx(bytes(range(16, 48))), "01"[lit % 2])
    if 30 < lit <= 5000:
        # the command line itself with --paranoia and a report of lit + 1 rows
        from .c20 import enc, SEED
        yield "cli absent %s %s" % (hx(bytes(range(40))), enc(["--paranoia", "--interval", "0", str(lit + 1),
                                                               "from-bip39-seed", SEED]))
    elif lit < 2 ** 31:
        yield "paranoia %s %d 0 1" % (w, lit)


LITERAL_BUDGET = 24


def cases(rng, tier):
    n = 12 if tier == "quick" else 500
    for ln in list(range(0, 9)) + [20]:
        w = wspecs(rng, 1)[0]
        yield "paranoia %s %d %d %d" % (w, rng.choice([0, 1]), 2, 2 + ln), "paranoia-rows-%d" % ln
    for w in wspecs(rng, n):
        acct = rng.choice([0, 1, H - 1, rng.randrange(H)])
        a, b = intervals(rng)
        if b == 0 and a > 0:
            b = a + rng.randint(0, 2)
        yield "paranoia %s %d %d %d" % (w, acct, a, b), "paranoia"
    yield from _seq_cases(rng, tier)
    # intervals at and across 2^31 (the command line accepts address indexes up to 2^32 - 2, known finding K2 of C20:
    # such rows are derived from the PRIVATE key only) — through the filter function and through the CLI with --paranoia
    from .c20 import enc, SEED
    for a, b in ((H - 2, H + 2), (H, H + 2), (H - 1, H), (2 ** 32 - 4, 2 ** 32 - 2)):
        yield "paranoia seedb:%s:0 0 %d %d" % (SEED, a, b), "paranoia-hardened-boundary"
        yield "cli absent %s %s" % (hx(bytes(40)), enc(["--paranoia", "--interval", str(a), str(b), "from-bip39-seed", SEED])), \
            "paranoia-cli-hardened-boundary"
    # the filtered report on the routes that actually leave the process: the text printed by pprint, the file written
    # by export_wallet, the json() text — every row count incl. the empty interval, several indents
    for ln in ([0, 0, 1, 2, 4] if tier == "quick" else list(range(0, 9)) * 3):
        w = wspecs(rng, 1)[0]
        a = rng.choice([0, 2, 20])
        for kind in ("pprint", "export", "json"):
            yield "paper_text %s %s p:%d:%d:%d %s" % (kind, w, rng.choice([0, 1]), a, a + ln,
                                                      rng.choice(["4", "-", "0", "2"])), "paranoia-text-%s-rows-%d" % (kind, ln)


def _seq_cases(rng, tier):
    """two filtered reports in one process; the FIRST is inspected only after the second has been produced"""
    n = 3 if tier == "quick" else 60
    ws = wspecs(rng, 2 * n)
    for i in range(n):
        a1, b1 = rng.choice([(0, 1), (0, 3), (2, 4)])
        a2, b2 = rng.choice([(0, 1), (0, 2), (5, 9)])
        yield "paranoia_seq %s %d %d %d %s %d %d %d" % (ws[2 * i], rng.choice([0, 1]), a1, b1,
                                                        ws[2 * i + 1], rng.choice([0, 2]), a2, b2), "paranoia-held-result"


def nontrivial(line, out):
    return "[[" in out


def leaves(v, path=()):
    if isinstance(v, dict):
        for k, x in v.items():
            yield from leaves(x, path + (k,))
    elif isinstance(v, list):
        for i, x in enumerate(v):
            yield from leaves(x, path + (i,))
    else:
        yield path, v


def is_private_encoding(s):
    if not isinstance(s, str):
        return False
    try:
        pl = b58check_dec(s)
    except (ValueError, IndexError):
        return False
    if len(pl) in (33, 34) and pl[0] in (0x80, 0xef):
        return True
    if len(pl) == 78 and int.from_bytes(pl[:4], "big") in PRV_VERSIONS:
        return True
    return False


def oracle(line, out):
    tok = line.split(" ")
    if tok[0] == "paranoia_seq":
        v = ok_val(out)
        if v is None:
            return "filtered reports failed"
        r1, r2, same = v.split(" ")
        m = oracle("paranoia " + " ".join(tok[1:5]), "ok " + r1)
        if m:
            return "first filtered report, inspected after a second one was produced: " + m
        m = oracle("paranoia " + " ".join(tok[5:9]), "ok " + r2)
        if m:
            return "second filtered report: " + m
        return None
    if tok[0] == "cli":
        v = ok_val(out)
        if v is None or not v.startswith("emit "):
            return None
        from .c20 import SEED
        argv = [unstr(x) for x in tok[3].split(",")]
        a, b = int(argv[argv.index("--interval") + 1]), int(argv[argv.index("--interval") + 2])
        rep_s = v.split(" ", 2)[2]
        return oracle("paranoia seedb:%s:0 0 %d %d" % (SEED, a, b), "ok " + rep_s)
    if tok[0] == "paper_text" and tok[3].startswith("p:"):
        v = ok_val(out)
        if v is None:
            return "printing / exporting the filtered report failed"
        import json
        try:
            rep = json.loads(unstr(v))
        except ValueError:
            return "text written for the filtered report is not JSON"
        _, acct, a, b = tok[3].split(":")
        return oracle("paranoia %s %s %s %s" % (tok[2], acct, a, b), "ok " + impl.jsonS(rep))
    if tok[0] != "paranoia":
        return None
    v = ok_val(out)
    w, acct, a, b = tok[1], int(tok[2]), int(tok[3]), int(tok[4])
    seed, testnet, mn, pw = master_of(w)
    if indep_master(seed) is None:
        return None
    if v is None:
        return "paranoia-filtered generate failed"
    rep = from_canon(v)
    full = from_canon(ok_val(impl.run("generate " + " ".join(tok[1:]))))
    secrets = set()
    for path, leaf in leaves(full):
        is_secret = (path[0] in ("MASTER", "BIP85")) or path[-1] == "prv" or \
            (len(path) >= 3 and path[1] == "groups" and path[-1] == 3)
        if is_secret and isinstance(leaf, str) and leaf != "":
            secrets.add(leaf)
    for path, leaf in leaves(rep):
        if leaf is None:
            return "filtered output contains a null at %s" % (path,)
        if is_private_encoding(leaf):
            return "string at %s of the filtered output decodes as a private-key encoding" % (path,)
        if leaf in secrets:
            return "secret string of the unfiltered output occurs in the filtered output at %s" % (path,)
        for s in secrets:
            if len(s) >= 16 and s in leaf:
                return "secret string embedded in filtered output at %s" % (path,)
    if set(rep.keys()) - {"BIP44", "BIP49", "BIP84"}:
        return "filtered output has unexpected top-level keys %s" % sorted(rep.keys())
    # public data identical
    for p in ("BIP44", "BIP49", "BIP84"):
        if p not in rep:
            return "%s missing from the filtered output" % p
        if rep[p]["account_extended_keys"].get("path") != full[p]["account_extended_keys"]["path"] or \
                rep[p]["account_extended_keys"].get("pub") != full[p]["account_extended_keys"]["pub"]:
            return "account path / extended public key changed by the filter"
        if [r[:3] for r in full[p]["groups"]] != rep[p]["groups"]:
            return "row path/address/public key changed by the filter"
    return check_report(rep, seed, testnet, mn, pw, acct, a, b, filtered=True)


known_match = common.no_known


def extra_checks(rng, tier, g, info):
    """the command line with --paranoia and a --file target of every odd class (regular file as parent, trailing slash,
    over-long name, symlink loop, dangling symlink, existing file named with a trailing slash, read-only parent):
    whatever happens to the export, NOTHING the run prints or writes may contain a secret of the wallet"""
    import json
    from .c20 import SEED
    w = impl.make_wallet("seedh:%s:0" % sx(SEED))
    secrets = set()
    for acct, iv in ((0, (0, 20)), (1, (0, 2))):
        for path, leaf in leaves(json.loads(json.dumps(w.generate(account=acct, interval=iv)))):
            is_secret = (path[0] in ("MASTER", "BIP85")) or path[-1] == "prv" or \
                (len(path) >= 3 and path[1] == "groups" and path[-1] == 3)
            if is_secret and isinstance(leaf, str) and len(leaf) >= 16:
                secrets.add(leaf)
    n = 0
    for fsk in ("parentfile", "trailslash", "longname", "symloop", "dangling", "filetrail", "filetraildot", "dir", "noparent",
                "file", "absent"):
        for extra in (["--account", "1", "--interval", "0", "2"], []):
            argv = ["--paranoia", "--file", "@F"] + extra + ["from-bip39-seed", SEED]
            if rng.random() < 0.5:
                argv = argv[1:3] + ["--paranoia"] + argv[3:]
            canon, det = impl.cli_run(fsk, bytes(40), argv)
            n += 1
            texts = [det.get("stdout") or "", det.get("created") or ""]
            for tx in texts:
                hit = next((s_ for s_ in secrets if s_ in tx), None)
                if hit:
                    yield ("cli %s %s %s" % (fsk, hx(bytes(40)), ",".join(sx(a) for a in argv)),
                           "a --paranoia run (exit status %s) printed / wrote a secret of the wallet: %s..." % (
                               det.get("status"), hit[:24]))
                    break
    info["paranoia_cli_file_targets"] = n
    # --paranoia at EVERY position of the command line and in every spelling argparse may or may not take (behind the
    # sub-command, behind its argument, abbreviated, with a value, doubled, behind "--"): the run either refuses or
    # filters — a run that was asked for paranoia in any of these ways never shows a secret
    m = 0
    base = ["from-bip39-seed", SEED]
    opts = [["--account", "1", "--interval", "0", "2"], []]
    spellings = ["--paranoia", "--par", "--paranoi", "--paranoia=1", "--paranoia=true", "-paranoia", "--PARANOIA", "--p"]
    for sp in (spellings if tier == "thorough" else spellings[:2] + rng.sample(spellings[2:], 3)):
        for extra in opts:
            for pos in range(len(extra) + len(base) + 1):
                argv = extra + base
                argv = argv[:pos] + [sp] + argv[pos:]
                variants = [argv]
                if sp == "--paranoia" and pos == 0:
                    variants += [["--paranoia"] + argv, extra + ["--"] + base + ["--paranoia"],
                                 ["--file", "@F"] + argv[1:] + ["--paranoia"]]
                for av in variants:
                    for fsk in (("absent",) if "@F" in av or rng.random() < 0.7 else ("file",)):
                        canon, det = impl.cli_run(fsk, bytes(40), av)
                        m += 1
                        for tx in (det.get("stdout") or "", det.get("created") or ""):
                            hit = next((s_ for s_ in secrets if s_ in tx), None)
                            if hit:
                                yield ("cli %s %s %s" % (fsk, hx(bytes(40)), ",".join(sx(a) for a in av)),
                                       "a run given %s (exit status %s) printed / wrote a secret of the wallet: %s..." % (
                                           sp, det.get("status"), hit[:24]))
                                return
    info["paranoia_option_placements"] = m
    # secrets of awkward SHAPES (wrapped in quotes, shell / format / escape syntax, leading dash or at-sign, blanks):
    # with --paranoia nothing of the run's output — standard output, target file — contains the passphrase
    mn_ = "legal winner thank year wave sausage worth useful legal winner thank yellow"
    shapes = ["'correct horse battery'", '"correct horse battery"', "`correct horse`", "$(correct horse)", "${CORRECT_HORSE}",
              "%s correct %d horse", "{0} correct {horse}", "correct\\nhorse\\tbattery", " correct horse ", "correct  horse",
              "#correct horse", "~correct/horse", "correct;horse|battery", "<correct> horse", "correct=horse", "C:\\correct\\horse"]
    r_ = 0
    for pw_ in (shapes if tier == "thorough" else shapes[:2] + rng.sample(shapes[2:], 3)):
        for argv in (["--paranoia", "--interval", "0", "1", "from-mnemonic", mn_, "--password", pw_],
                     ["--paranoia", "--file", "@F", "--interval", "0", "1", "from-entropy-hex", "7f" * 16, "--password", pw_]):
            canon, det = impl.cli_run("absent", bytes(40), argv)
            r_ += 1
            for where, tx in (("standard output", det.get("stdout") or ""), ("the target file", det.get("created") or "")):
                if pw_ in tx or pw_.strip("'\"` ") in tx or mn_ in tx:
                    yield ("cli absent %s %s" % (hx(bytes(40)), ",".join(sx(a) for a in argv)),
                           "a --paranoia run shows the passphrase / mnemonic it was given in %s" % where)
                    return
    info["awkward_secret_shapes"] = r_
    # CRASH POINTS: the run is interrupted (KeyboardInterrupt, what Ctrl-C does) at its k-th derivation step, for k
    # spread over the whole run; whatever is on standard output or in the target file at that moment contains no secret
    import bisect
    q = 0
    for argv, known in ((["--paranoia", "--file", "@F", "--interval", "0", "3", "from-bip39-seed", SEED], secrets),
                        (["--paranoia", "--interval", "0", "3", "from-bip39-seed", SEED], secrets),
                        (["--paranoia", "--file", "@F", "--interval", "0", "2", "new", "--password", "correct horse battery"], None)):
        osb = bytes(rng.getrandbits(8) for _ in range(40))
        _, det0 = impl.cli_run("absent", osb, argv)
        total = det0.get("hmac_calls") or 0
        if known is None:
            from .c12 import mnemonic as indep_mnemonic
            known = {indep_mnemonic(osb[:32]), "correct horse battery"}
            for tx in (det0.get("stdout") or "", det0.get("created") or ""):
                if any(s_ in tx for s_ in known):
                    yield ("cli absent %s %s" % (hx(osb), ",".join(sx(a) for a in argv)), "a --paranoia run shows the new wallet's mnemonic / passphrase")
                    return
        ks = sorted(set([1, 2, 3, 4, 5, 8, 13, 21, total // 2, total - 1, total] + [rng.randint(1, max(1, total)) for _ in range(4)]))
        for k in [k_ for k_ in ks if 1 <= k_ <= total] if tier == "thorough" else [k_ for k_ in ks if 1 <= k_ <= total][:9]:
            canon, det = impl.cli_run("absent", osb, argv, interrupt_at=k)
            q += 1
            for where, tx in (("standard output", det.get("stdout") or ""), ("the target file", det.get("created") or "")):
                hit = next((s_ for s_ in known if s_ in tx), None)
                if hit is None:
                    for path, leaf in (leaves(json.loads(tx)) if tx.strip().startswith("{") and tx.strip().endswith("}") else []):
                        if is_private_encoding(leaf):
                            hit = leaf
                            break
                if hit:
                    yield ("# cli (target absent) %s, OS bytes %s, interrupted (KeyboardInterrupt) at HMAC call %d of %d" % (
                        " ".join(argv), osb.hex(), k, total),
                        "a --paranoia run that was interrupted left a secret in %s: %s..." % (where, hit[:24]))
                    return
    info["paranoia_crash_points"] = q
