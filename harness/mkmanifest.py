#!/venv/bin/python
"""Write /verif/MANIFEST.json from the table below (kept valid at all times)."""
import json
import os

VERIF = os.path.dirname(os.path.dirname(os.path.abspath(__file__)))

CORR = ("; the model is defined over constants extracted from the source on every run and is tied to the Python by a "
        "differential correspondence run (boundary-directed generators) plus an independent property oracle on the real code")
NOTE = ("Lean kernel + propext/Classical.choice/Quot.sound (audited per theorem); Python control flow is modelled by hand and tied "
        "to the source (a) by the differential correspondence run in every tier and (b) in the thorough tier by a machine "
        "translation of 153 functions of the package (all of bech32.py, bip32.py and ripemd.py, Base58, varint/script, BIP39 sentence, "
        "seed and the random route, keys.py, base_wallet.py, bip85.py, wallet_utils.py (Version tables read from source, Bip32Path), "
        "paper_wallet.py reports and text layer, paranoia_mode, CLI validators and the dispatch of main) PROVED equal to the model "
        "(Props/Tr*.lean; the tables the translators use are their trusted base, DESIGN 10.6/10.15/10.16/10.18/10.19; for ripemd.py the passage from Python integers to residues mod 2^32 is a syntactically checked, not machine-checked, argument); ")
TECH = "Lean 4 theorems over an executable model + model/implementation correspondence"

CLAIMED = {
    # pid: (design section, text, note, technique)
    "C01": ("§5 C01", "Lean theorems: the model of PrvKeyNode.ckd equals a CKDpriv written from the BIP32 text for every valid parent "
            "(32/33-byte key form), every index < 2^32 and EVERY primitive instance (hence every PRF output: IL+k wrap-around, "
            "leading-zero children, IL >= n, zero key); lifted to paths of any length by induction; xprv/xpub strings are the "
            "Base58Check of the BIP32 layout" + CORR,
            NOTE + "HMAC-SHA512, HASH160 and the curve are parameters (assumed to be what hashlib/python-ecdsa compute; compared on every case)", TECH),
    "C02": ("§5 C02", "Lean theorems: CKDpub(neuter parent) = neuter(CKDpriv parent) on every normal index and, by induction, on every "
            "normal path; hardened indexes refused on public nodes before any primitive is called" + CORR,
            NOTE + "curve group laws (mulGen additive, a*G = inf iff n | a, parse(sec P) = P) and HMAC output length are explicit "
            "hypotheses (GroupLaws) of the general theorems and are PROVED for the concrete secp256k1 the driver runs (Props/RealCurve: Pratt certificates for p and n, Mathlib group law, G of order n), which is compared with python-ecdsa on every case; the IL = 0 corner (PRF substitution only) is excluded by hypothesis", TECH),
    "C03": ("§5 C03", "Lean theorems: seed = PBKDF2(utf8(NFKD m), utf8('mnemonic' ++ NFKD p), 2048); master = split HMAC('Bitcoin seed'); the "
            "five constructors yield the same master key material; the network flag never enters key material" + CORR,
            NOTE + "PARTIAL: NFKD tables (CPython unicodedata), PBKDF2 and HMAC are parameters, not verified; the xprv re-import clause is also instantiated at the concrete primitives with no curve hypothesis left (Props/RealInst/C03)", TECH),
    "C04": ("§5 C04", "Lean theorems: for 16/20/24/28/32-byte entropy the sentence has 12..24 words and its word indexes decode bit-exactly to "
            "entropy || first ENT/32 bits of SHA-256; every other decoded size and malformed hex is rejected; the embedded list equals "
            "a frozen copy of the official list (kernel-checked), is strictly sorted and injective" + CORR,
            NOTE + "SHA-256 is a parameter (32-byte output assumed); the frozen official list is anchored by its SHA-256 digest checked by the harness; thorough tier: mnemonic_from_entropy and its helpers are machine-translated from the source and PROVED equal to the model (Props/TrBip39)", TECH),
    "C05": ("§5 C05", "Lean theorems: each of the five address kinds on both networks decodes (with the decoders proved inverse in C10/C11) to the "
            "expected version byte / witness version and hash; script templates; RIPEMD-160 padding for every length and tables = spec" + CORR,
            NOTE + "SHA-256 is a parameter; RIPEMD-160's 80-step compression is mirrored and compared with OpenSSL for all lengths 0..1024 (testing); the address theorem is also instantiated at the concrete SHA-256 / curve (Props/RealInst/C05)", TECH),
    "C06": ("§5 C06", "Lean theorems about the report model: account path/coin/SLIP-132 versions, exactly one row per index in order, row fields "
            "belong to one key, master echo, Wasabi export" + CORR,
            NOTE + "the JSON text layer is modelled (Model/JsonText, round-trip theorems in Props/C06Json) and compared with CPython's json text-for-text; lone surrogates are outside the model", TECH),
    "C07": ("§5 C07", "Lean theorems: 78-byte layout, parse(serialize) node-equal and re-serialises identically for private and public nodes, "
            "111 characters for all 12 versions (numeric bounds), version table bijection and rejection of unknown versions, public "
            "serialisation factors through the public view, master zeros" + CORR,
            NOTE + "curve sec/parse facts are explicit CurveLaws hypotheses of the general theorems, discharged for the concrete curve in Props/RealInst/C07 (RealCurve.real_curveLaws)", TECH),
    "C08": ("§5 C08", "Lean theorems: getrandbits requests exactly ENT/8 bytes once, the mnemonic's entropy IS the OS bytes (identity map, so "
            "every bit incl. the MSB is an OS bit and distinct OS outputs give distinct mnemonics), no PRNG-state argument exists; bad "
            "lengths rejected" + CORR + "; os.urandom is observed/stubbed from outside, PRNG re-seeded",
            NOTE + "PARTIAL by nature: that bip39.random is a SystemRandom over os.urandom and that the kernel CSPRNG is unpredictable are not theorems", TECH),
    "C09": ("§5 C09", "Lean theorems: WIF payload, first-character classes (numeric bounds over the whole 256-bit range), fromWif(wif k) = k for the "
            "four flavours, rejection of 0 / >= n / wrong length, SEC round trip from CurveLaws" + CORR,
            NOTE + "curve facts are CurveLaws hypotheses of the general theorems, PROVED for the concrete Lean secp256k1 (Props/RealCurve, Props/RealInst/C09); that python-ecdsa computes the same functions is tested on every case", TECH),
    "C10": ("§5 C10", "Lean theorems: decode(encode b) = b on non-empty bytes, encode(decode s) = s on non-empty alphabet strings, leading zeros <-> "
            "leading '1', checksummed decoder accepts iff the checksum matches, foreign characters and too-short strings rejected" + CORR,
            NOTE + "double SHA-256 is a parameter (only output length >= 4 is used); thorough tier: encode_base58 / decode_base58 / *_checksum / b58decode_addr are machine-translated from the source and PROVED equal to the model (Props/TrBase58)", TECH),
    "C11": ("§5 C11", "Lean theorems: encode succeeds exactly on legal (hrp, version, program) and decodes back; checksum constant by version; every "
            "rejection rule; convertbits round trip for every byte list; AND kernel-checked GF(2) linear algebra: no error pattern of weight "
            "<= 4 has zero syndrome and none of weight <= 3 maps one checksum constant to the other, at every data length <= 71" + CORR,
            NOTE + "BCH facts are `decide +kernel` evaluations split over generated row modules, re-checked against the generator words in the source; thorough tier: ALL of bech32.py (polymod, hrp_expand, checksums, convertbits, bech32_encode/decode, encode/decode) is machine-translated from the source and PROVED equal to the model (Props/TrBech32)", TECH),
    "C12": ("§5 C12", "Lean theorems: each BIP85 application = HMAC('bip-entropy-from-k', key at the fully hardened template path) sliced as "
            "specified; parameter/index bounds enforced (negative or >= 2^31 indexes rejected); template paths injective" + CORR,
            NOTE + "HMAC, SHA-256 and the curve are parameters", TECH),
    "C13": ("§5 C13", "Lean theorems: refinement of the state machine of API calls on shared node/wallet/generator objects to a stateless function "
            "of (root, path, parameters): every table entry is a pure derivation of the root; the root is never modified; path "
            "concatenation; generator indexes" + CORR + " on random op histories, re-run stateless and multi-threaded",
            NOTE + "PARTIAL for schedules: the theorem's atoms are whole API calls; on the real code schedules are explored by contended-node stress runs and a deterministic single-preemption exploration at source-line granularity (sys.settrace), which is testing; CPython's atomic list.append / re-entrant hashlib+ecdsa are trusted", TECH),
    "C14": ("§5 C14", "Lean theorems: a wallet imported from an extended public key is watch-only, has no BIP85, yields no WIF / extended private key, "
            "refuses hardened derivation, and agrees with the full wallet on every normal sub-path (via C02)" + CORR,
            NOTE + "GroupLaws / CurveLaws hypotheses (through C02) of the general theorems, discharged for the concrete primitives in Props/RealInst/C14", TECH),
    "C15": ("§5 C15", "Lean theorems: the filtered report has exactly the whitelisted public positions (account path/pub, row path/address/SEC), no "
            "null and no other leaf, at every depth; public leaves identical to the unfiltered report" + CORR + " incl. a leak scanner",
            NOTE + "secrets are characterised by position; decodability of leaves as private encodings is checked by the oracle on the real output", TECH),
    "C16": ("§5 C16", "Lean theorems: every constructor makes wallet.testnet = master.testnet and derivation preserves it; address/WIF/extended-key/"
            "coin-type tags follow that flag; imported wallets take the flag of the version prefix" + CORR,
            NOTE + "the BIP85 block is governed by C12 (BIP85 fixes mainnet encodings) and excluded here", TECH),
    "C17": ("§5 C17", "Lean theorems: parse(format p) = p for <= 5 levels, exact characterisation of accepted strings (parse_iff), ' == h, by-path = "
            "fold of ckd, every malformed component class rejected; the depth clause is FALSE of the code (K1, pinned by the tests): "
            "parse_deep_fails + parse_honours_all_partial" + CORR,
            NOTE + "known finding K1 is reported as KNOWN-FINDING, any other failure as violation", TECH),
    "C18": ("§5 C18", "Lean theorems, for every PRF output: master fails iff IL = 0 or IL >= n; CKDpriv fails iff IL >= n or (IL+k) mod n = 0; CKDpub "
            "fails when IL >= n or the sum is infinity and any returned child is valid; BIP85 WIF/XPRV refused for secret 0 or >= n" + CORR
            + " with the PRF substituted from outside",
            NOTE + "the PRF is a parameter (that is the point)", TECH),
    "C19": ("§5 C19", "Lean theorems: parse(serialize cs ++ rest) = (cs, rest) for well-formed scripts, exact characterisation of accepted inputs "
            "(parse_iff) so truncated input is never accepted, push forms at 75/76/255/256/520/521, varint round trip / minimality / "
            ">= 2^64 refused / truncation rejected" + CORR + " with exhaustive element lengths 0..522 and all prefixes",
            NOTE + "opcode bytes 1..77 are push prefixes and excluded from round-trip scripts (Cmd.WF)", TECH),
    "C20": ("§5 C20", "Lean theorems about the CLI model (validators + dispatch over a canonical argv grammar): reject => no report; emit => report = "
            "(paranoia?) generate(ctor(args)); file target only for an absent path; rows BIP44-shaped when interval end <= 2^31 "
            "(the full clause is FALSE of the code: K2, pinned by the tests)" + CORR + " running main() in-process and as subprocess",
            NOTE + "PARTIAL: argparse outside the canonical grammar and the real file system are not modelled; K2 reported as KNOWN-FINDING", TECH),
}

NOT_YET = {}


def _has_props(pid):
    return os.path.exists(os.path.join(VERIF, "lean", "BtcHd", "Props", pid + ".lean"))


def main():
    props = [json.loads(l) for l in open(os.path.join(VERIF, "properties.jsonl"))]
    checks = []
    for p in props:
        pid = p["id"]
        if pid not in CLAIMED or not _has_props(pid):
            continue
        sec, text, note, tech = CLAIMED[pid]
        checks.append({
            "property_id": pid,
            "quick_cmd": "./check %s --tier quick" % pid,
            "thorough_cmd": "./check %s --tier thorough" % pid,
            "evidence_file": "evidence/%s.json" % pid,
            "replay_cmd_template": "./check %s --replay {path}" % pid,
            "engine": "lean4-model-correspondence",
            "level_claimed": {"category": "proof", "text": text, "design_ref": sec},
            "level_note": note,
            "technique": tech,
        })
    na = [{"property_id": p["id"], "reason": NOT_YET.get(p["id"], "check not built yet in this round (planned: see DESIGN.md §5); not claimed until its theorems and correspondence exist")}
          for p in props if p["id"] not in CLAIMED or not _has_props(p["id"])]
    man = {
        "version": 1,
        "setup_cmd": "/venv/bin/python harness/regen.py && cd lean && lake build BtcHd driver",
        "hooks": {
            "guard": "BTC_HD_WALLET_VERIF",
            "enable": "no source hooks are needed: PRF substitution, os.urandom observation, stdout/exit capture are done from outside by the harness",
            "baseline_off_cmd": "cd /repo && /venv/bin/python -m pytest -ra -q -p no:cacheprovider --timeout=900 --continue-on-collection-errors",
            "source_commits": [],
            "add_only": True,
        },
        "engines": [{
            "name": "lean4-model-correspondence", "path": "harness/check.py",
            "serves_properties": sorted(p for p in CLAIMED if _has_props(p)),
            "kind_free_text": "Lean 4 theorems about an executable model (lean/BtcHd) whose constants are regenerated from /repo on every run, plus a differential correspondence check model vs implementation over a line protocol (Driver/Main.lean vs harness/impl.py), plus property oracles on the real code for the failing-input search",
        }],
        "checks": checks,
        "not_applicable": na,
        "notes": "See DESIGN.md. known_findings.json lists fixed and known defects. Exit 2 = infrastructure/time-out, never a violation.",
    }
    with open(os.path.join(VERIF, "MANIFEST.json"), "w") as f:
        json.dump(man, f, indent=1)
    print("MANIFEST: %d claimed, %d not claimed" % (len(checks), len(na)))


if __name__ == "__main__":
    main()
