#!/venv/bin/python
"""Write /verif/MANIFEST.json from the table below (kept valid at all times)."""
import json
import os

VERIF = os.path.dirname(os.path.dirname(os.path.abspath(__file__)))

CLAIMED = {
    # pid: (design section, text, note, technique)
    "C10": ("§5 C10",
            "Lean 4 theorems (decode∘encode = id on non-empty bytes, encode∘decode = id on non-empty alphabet strings, "
            "leading zeros ↔ leading '1', checksummed decoder accepts iff the checksum matches, foreign characters and "
            "too-short strings rejected) about a model defined over the alphabet extracted from the source on every run; "
            "the model is tied to helper.py by a differential run on boundary and mutation-shaped inputs. For all byte "
            "strings / strings, which no finite test list reaches.",
            "double SHA-256 is a parameter (only output length >= 4 is used); Python control flow is hand-modelled and "
            "tied by correspondence; Lean kernel + propext/Classical.choice/Quot.sound",
            "Lean 4 proof (induction via Nat.digits) + model/implementation correspondence"),
}

NOT_YET = {}


def main():
    props = [json.loads(l) for l in open(os.path.join(VERIF, "properties.jsonl"))]
    checks = []
    for p in props:
        pid = p["id"]
        if pid not in CLAIMED:
            continue
        sec, text, note, tech = CLAIMED[pid]
        checks.append({
            "property_id": pid,
            "quick_cmd": "./check %s --tier quick" % pid,
            "thorough_cmd": "./check %s --tier thorough" % pid,
            "evidence_file": "evidence/%s.json" % pid,
            "replay_cmd_template": "./check %s --replay {path}" % pid,
            "engine": "lean4-model-correspondence",
            "level_claimed": {"category": "proof", "text": text, "design_ref": sec},
            "level_note": note,
            "technique": tech,
        })
    na = [{"property_id": p["id"], "reason": NOT_YET.get(p["id"], "check not built yet in this round (planned: see DESIGN.md §5); not claimed until its theorems and correspondence exist")}
          for p in props if p["id"] not in CLAIMED]
    man = {
        "version": 1,
        "setup_cmd": "/venv/bin/python harness/extract.py && cd lean && lake build BtcHd driver",
        "hooks": {
            "guard": "BTC_HD_WALLET_VERIF",
            "enable": "no source hooks are needed: PRF substitution, os.urandom observation, stdout/exit capture are done from outside by the harness",
            "baseline_off_cmd": "cd /repo && /venv/bin/python -m pytest -ra -q -p no:cacheprovider --timeout=900 --continue-on-collection-errors",
            "source_commits": [],
            "add_only": True,
        },
        "engines": [{
            "name": "lean4-model-correspondence", "path": "harness/check.py",
            "serves_properties": sorted(CLAIMED),
            "kind_free_text": "Lean 4 theorems about an executable model (lean/BtcHd) whose constants are regenerated from /repo on every run, plus a differential correspondence check model vs implementation over a line protocol (Driver/Main.lean vs harness/impl.py), plus property oracles on the real code for the failing-input search",
        }],
        "checks": checks,
        "not_applicable": na,
        "notes": "See DESIGN.md. known_findings.json lists fixed and known defects. Exit 2 = infrastructure/time-out, never a violation.",
    }
    with open(os.path.join(VERIF, "MANIFEST.json"), "w") as f:
        json.dump(man, f, indent=1)
    print("MANIFEST: %d claimed, %d not claimed" % (len(checks), len(na)))


if __name__ == "__main__":
    main()
