#!/bin/sh
# confirm_seed.sh <worktree> <seed-id>: verify a proposed change myself in its scratch worktree and store it under seeded/
set -e
WT=$1; ID=$2
cd $WT
git diff -- btc_hd_wallet > patch.diff
[ -s patch.diff ] || { echo "empty patch"; exit 1; }
/venv/bin/python -c "import btc_hd_wallet,sys; assert btc_hd_wallet.__file__.startswith('$WT'), btc_hd_wallet.__file__"
T=$(/venv/bin/python -m pytest -q -p no:cacheprovider --timeout=900 2>&1 | tail -1)
echo "tests with change: $T"
set +e
/venv/bin/python demo.py > /tmp/demo_with.txt 2>&1; RC1=$?
git apply -R patch.diff
/venv/bin/python demo.py > /tmp/demo_without.txt 2>&1; RC0=$?
git apply patch.diff
set -e
echo "demo with change rc=$RC1 ; without rc=$RC0"
case "$T" in *"124 passed"*) ;; *) echo "TEST SUITE CHANGED"; exit 1;; esac
[ $RC1 -ne 0 ] && [ $RC0 -eq 0 ] || { echo "demo does not discriminate"; exit 1; }
mkdir -p /verif/seeded/$ID
cp patch.diff demo.py /verif/seeded/$ID/
/venv/bin/python - <<PY
import json
m=json.load(open('$WT/meta.json'))
m['confirmed']={'tests_with_change':"""$T""",'demo_exit_with_change':$RC1,'demo_exit_without_change':$RC0,
  'how':'harness/confirm_seed.sh in a scratch worktree of /repo'}
json.dump(m,open('/verif/seeded/$ID/meta.json','w'),indent=1)
PY
echo "stored /verif/seeded/$ID"
