#!/venv/bin/python
"""Translation tie, batch 13: `btc_hd_wallet/ripemd.py` (fi, rol, compress, ripemd160) -> lean/BtcHd/Generated/CodeObj6.lean;
lean/BtcHd/Props/TrRipemd.lean proves each emitted function equal to the model (`Model/Ripemd.lean`).

The Python code computes on unbounded integers and reduces only at two places (`rol` masks with 0xffffffff before its right
shift and at its end; the digest words are masked before `to_bytes`).  The translation is into the residue domain Z/2^32
(`UInt32`): it is sound because every operator the code applies to a state word is compatible with reduction modulo 2^32
(`+  ^  &  |  ~  <<`), and THIS TRANSLATOR CHECKS that nothing else is applied: a right shift is accepted only on an operand
of the form `(e & 0xffffffff)`, `to_bytes(4, 'little')` only on `(h & 0xffffffff)`, and no comparison, division, `len`,
indexing or conversion may take a state word.  That compatibility argument (a ring / bitwise homomorphism Z -> Z/2^32) is the
trusted base of this layer; it is not machine-checked here (core Lean has no `&`/`|`/`^` on `Int`).  Any construct outside the
rules ⇒ `Code.translationFailed` ⇒ a broken obligation.

Word-valued expressions (kind W):   names bound to words, integer literals < 2^32, `a + b`, `a ^ b`, `a & b`, `a | b`, `~a`,
`a << n`, `(a & 0xffffffff) >> n`, `e & 0xffffffff` (identity in the domain), `x[T[j]]` (message word through a schedule
table), `K[rnd]` (constant table), `fi(..)`, `rol(..)`.
Index-valued expressions (kind N, natural numbers): loop variables, literals, `j >> 4`, `4 - rnd` / `32 - i` (truncated
subtraction: Props/TrRipemd proves the subtrahend is in range wherever the function is called), `T[j]` for a rotation table.
The tables themselves are read from the source by harness/extract.py (Generated/Ripemd.lean)."""
import ast
import os
import sys

HERE = os.path.dirname(os.path.abspath(__file__))
sys.path.insert(0, HERE)
REPO = os.environ.get("VERIF_REPO", "/repo")
OUT = os.path.join(os.path.dirname(HERE), "lean", "BtcHd", "Generated", "CodeObj6.lean")

MASK = 0xffffffff
TABLES_N = {"ML": "rmdML", "MR": "rmdMR", "RL": "rmdRL", "RR": "rmdRR"}      # index / rotation tables (Nat)
TABLES_W = {"KL": "rmdKL", "KR": "rmdKR"}                                      # word constants


class Unsupported(Exception):
    pass


def is_mask(e):
    return isinstance(e, ast.Constant) and e.value == MASK


class Tr:
    def __init__(self, words, nats, arrays=()):
        self.words = set(words)
        self.nats = set(nats)
        self.arrays = set(arrays)

    # ---- index-valued
    def n(self, e):
        if isinstance(e, ast.Name) and e.id in self.nats:
            return e.id
        if isinstance(e, ast.Constant) and type(e.value) is int and e.value >= 0:
            return str(e.value)
        if isinstance(e, ast.BinOp) and isinstance(e.op, ast.RShift) and isinstance(e.right, ast.Constant):
            return "(%s / %d)" % (self.n(e.left), 2 ** e.right.value)
        if isinstance(e, ast.BinOp) and isinstance(e.op, ast.Sub):
            return "(%s - %s)" % (self.n(e.left), self.n(e.right))
        if isinstance(e, ast.Subscript) and isinstance(e.value, ast.Name) and e.value.id in TABLES_N:
            return "(tbl Generated.%s %s)" % (TABLES_N[e.value.id], self.n(e.slice))
        raise Unsupported("index expression " + ast.dump(e)[:80])

    # ---- word-valued
    def w(self, e):
        if isinstance(e, ast.Name) and e.id in self.words:
            return e.id
        if isinstance(e, ast.Constant) and type(e.value) is int and 0 <= e.value <= MASK:
            return "(%d : UInt32)" % e.value
        if isinstance(e, ast.UnaryOp) and isinstance(e.op, ast.Invert):
            return "(~~~ %s)" % self.w(e.operand)
        if isinstance(e, ast.BinOp):
            if isinstance(e.op, ast.BitAnd) and is_mask(e.right):
                return self.w(e.left)                       # reduction modulo 2^32: the identity of the domain
            if isinstance(e.op, ast.Add):
                return "(%s + %s)" % (self.w(e.left), self.w(e.right))
            if isinstance(e.op, ast.BitXor):
                return "(%s ^^^ %s)" % (self.w(e.left), self.w(e.right))
            if isinstance(e.op, ast.BitAnd):
                return "(%s &&& %s)" % (self.w(e.left), self.w(e.right))
            if isinstance(e.op, ast.BitOr):
                return "(%s ||| %s)" % (self.w(e.left), self.w(e.right))
            if isinstance(e.op, ast.LShift):
                return "(%s <<< UInt32.ofNat %s)" % (self.w(e.left), self.n(e.right))
            if isinstance(e.op, ast.RShift):
                l = e.left
                if not (isinstance(l, ast.BinOp) and isinstance(l.op, ast.BitAnd) and is_mask(l.right)):
                    raise Unsupported("right shift of a value that is not masked with 0xffffffff")
                return "(%s >>> UInt32.ofNat %s)" % (self.w(l.left), self.n(e.right))
            raise Unsupported("operator %s on a state word" % type(e.op).__name__)
        if isinstance(e, ast.Subscript) and isinstance(e.value, ast.Name):
            if e.value.id in self.arrays:
                return "(%s.getD %s 0)" % (e.value.id, self.n(e.slice))
            if e.value.id in TABLES_W:
                return "(UInt32.ofNat (tbl Generated.%s %s))" % (TABLES_W[e.value.id], self.n(e.slice))
        if isinstance(e, ast.Call) and isinstance(e.func, ast.Name) and not e.keywords:
            if e.func.id == "fi" and len(e.args) == 4:
                return "(fi %s %s %s %s)" % (self.w(e.args[0]), self.w(e.args[1]), self.w(e.args[2]), self.n(e.args[3]))
            if e.func.id == "rol" and len(e.args) == 2:
                return "(rol %s %s)" % (self.w(e.args[0]), self.n(e.args[1]))
        raise Unsupported("word expression " + ast.dump(e)[:80])


def body_of(fn):
    b = fn.body
    if b and isinstance(b[0], ast.Expr) and isinstance(getattr(b[0], "value", None), ast.Constant) and \
            isinstance(b[0].value.value, str):
        b = b[1:]
    return b


def names(t):
    if isinstance(t, ast.Tuple) and all(isinstance(x, ast.Name) for x in t.elts):
        return [x.id for x in t.elts]
    raise Unsupported("tuple of names expected")


def emit_fi(fn):
    a = [x.arg for x in fn.args.args]
    if len(a) != 4:
        raise Unsupported("fi: arity")
    x, y, z, i = a
    tr = Tr([x, y, z], [i])
    arms = []
    node = body_of(fn)
    if len(node) != 1 or not isinstance(node[0], ast.If):
        raise Unsupported("fi: one if/elif chain expected")
    cur = node[0]
    k = 0
    while True:
        t = cur.test
        if not (isinstance(t, ast.Compare) and isinstance(t.left, ast.Name) and t.left.id == i and len(t.ops) == 1 and
                isinstance(t.ops[0], ast.Eq) and isinstance(t.comparators[0], ast.Constant) and t.comparators[0].value == k):
            raise Unsupported("fi: test %d" % k)
        if len(cur.body) != 1 or not isinstance(cur.body[0], ast.Return):
            raise Unsupported("fi: arm %d" % k)
        arms.append("  | %d => %s" % (k, tr.w(cur.body[0].value)))
        k += 1
        if len(cur.orelse) == 1 and isinstance(cur.orelse[0], ast.If):
            cur = cur.orelse[0]
            continue
        last = cur.orelse
        if not (len(last) == 1 and isinstance(last[0], ast.Assert) and isinstance(last[0].test, ast.Constant) and
                last[0].test.value is False):
            raise Unsupported("fi: final else is not `assert False`")
        break
    # `else: assert False`: no word is returned; an opaque value nothing can be proved about
    arms.append("  | _ => Code.translationFailed UInt32")
    return ("def fi (%s %s %s : UInt32) (%s : Nat) : UInt32 :=\n  match %s with\n" % (x, y, z, i, i)) + "\n".join(arms) + "\n"


def emit_rol(fn):
    a = [x.arg for x in fn.args.args]
    b = body_of(fn)
    if len(a) != 2 or len(b) != 1 or not isinstance(b[0], ast.Return):
        raise Unsupported("rol: shape")
    tr = Tr([a[0]], [a[1]])
    return "def rol (%s : UInt32) (%s : Nat) : UInt32 :=\n  %s\n" % (a[0], a[1], tr.w(b[0].value))


def emit_compress(fn):
    a = [x.arg for x in fn.args.args]
    if len(a) != 6:
        raise Unsupported("compress: arity")
    hs, block = a[:5], a[5]
    words = set(hs)
    out = ["def compress (%s : UInt32) (%s : Bytes) : UInt32 × UInt32 × UInt32 × UInt32 × UInt32 :=" % (" ".join(hs), block)]
    arrays = set()
    order = []           # word variables in order of first assignment
    stmts = body_of(fn)
    for s in stmts:
        if isinstance(s, ast.Assign) and len(s.targets) == 1 and isinstance(s.targets[0], ast.Tuple):
            tg = names(s.targets[0])
            tr = Tr(words, [], arrays)
            if not isinstance(s.value, ast.Tuple) or len(s.value.elts) != len(tg):
                raise Unsupported("compress: tuple assignment")
            vals = [tr.w(v) for v in s.value.elts]
            out.append("  let (%s) := (%s)" % (", ".join(tg), ", ".join(vals)))
            for t in tg:
                if t not in words:
                    order.append(t)
                words.add(t)
        elif isinstance(s, ast.Assign) and len(s.targets) == 1 and isinstance(s.targets[0], ast.Name) and \
                isinstance(s.value, ast.ListComp):
            # x = [int.from_bytes(block[4*i:4*(i+1)], 'little') for i in range(16)]  ↦  the little-endian words of the block
            want = "[int.from_bytes(%s[4 * i:4 * (i + 1)], 'little') for i in range(16)]" % block
            if ast.unparse(s.value) != want:
                raise Unsupported("compress: message words are not %s" % want)
            out.append("  let %s := (Ripemd.wordsLE %s).toArray" % (s.targets[0].id, block))
            arrays.add(s.targets[0].id)
        elif isinstance(s, ast.For):
            if not (isinstance(s.target, ast.Name) and ast.unparse(s.iter).startswith("range(") and
                    len(s.iter.args) == 1 and isinstance(s.iter.args[0], ast.Constant) and not s.orelse):
                raise Unsupported("compress: loop header")
            j = s.target.id
            n_iter = s.iter.args[0].value
            state = list(order)
            inner = []
            nats = {j}
            for t in s.body:
                if isinstance(t, ast.Assign) and len(t.targets) == 1 and isinstance(t.targets[0], ast.Name):
                    nm = t.targets[0].id
                    if nm in words:
                        inner.append("      let %s := %s" % (nm, Tr(words, nats, arrays).w(t.value)))
                    else:
                        inner.append("      let %s := %s" % (nm, Tr(words, nats, arrays).n(t.value)))
                        nats.add(nm)
                elif isinstance(t, ast.Assign) and len(t.targets) == 1 and isinstance(t.targets[0], ast.Tuple):
                    tg = names(t.targets[0])
                    if not set(tg) <= words or not isinstance(t.value, ast.Tuple) or len(t.value.elts) != len(tg):
                        raise Unsupported("compress: loop tuple assignment")
                    vals = [Tr(words, nats, arrays).w(v) for v in t.value.elts]
                    inner.append("      let (%s) := (%s)" % (", ".join(tg), ", ".join(vals)))
                else:
                    raise Unsupported("compress: loop statement " + type(t).__name__)
            tup = "(%s)" % ", ".join(state)
            out.append("  let %s := (List.range %d).foldl (fun (st : %s) (%s : Nat) =>" % (
                tup, n_iter, " × ".join(["UInt32"] * len(state)), j))
            out.append("      let %s := st" % tup)
            out += inner
            out.append("      %s) %s" % (tup, tup))
        elif isinstance(s, ast.Return):
            if not isinstance(s.value, ast.Tuple) or len(s.value.elts) != 5:
                raise Unsupported("compress: return")
            tr = Tr(words, [], arrays)
            out.append("  (%s)" % ", ".join(tr.w(v) for v in s.value.elts))
        else:
            raise Unsupported("compress: statement " + type(s).__name__)
    return "\n".join(out) + "\n"


def emit_ripemd160(fn):
    a = [x.arg for x in fn.args.args]
    if len(a) != 1:
        raise Unsupported("ripemd160: arity")
    d = a[0]
    st = body_of(fn)
    want = [
        None,       # state = (c0, ..., c4)
        "for b in range(len(%s) >> 6):\n    state = compress(*state, %s[64 * b:64 * (b + 1)])" % (d, d),
        "pad = b'\\x80' + b'\\x00' * (119 - len(%s) & 63)" % d,
        "fin = %s[len(%s) & ~63:] + pad + (8 * len(%s)).to_bytes(8, 'little')" % (d, d, d),
        "for b in range(len(fin) >> 6):\n    state = compress(*state, fin[64 * b:64 * (b + 1)])",
        "return b''.join(((h & 4294967295).to_bytes(4, 'little') for h in state))",
    ]
    if len(st) != len(want):
        raise Unsupported("ripemd160: %d statements" % len(st))
    s0 = st[0]
    if not (isinstance(s0, ast.Assign) and ast.unparse(s0.targets[0]) == "state" and isinstance(s0.value, ast.Tuple) and
            len(s0.value.elts) == 5 and all(isinstance(c, ast.Constant) and type(c.value) is int and 0 <= c.value <= MASK
                                             for c in s0.value.elts)):
        raise Unsupported("ripemd160: initial state")
    init = [c.value for c in s0.value.elts]
    for k in range(1, len(want)):
        got = ast.unparse(st[k])
        if got != want[k]:
            raise Unsupported("ripemd160: statement %d is `%s`" % (k, got[:90]))
    # statement rules:
    #   for b in range(len(X) >> 6): state = compress(*state, X[64*b:64*(b+1)])
    #       ↦ fold over List.range (|X| / 64) of compress on (X.drop (64*b)).take (64*(b+1) - 64*b)
    #   (119 - len(d)) & 63  ↦  ((119 - |d|) mod 64) on the integers;  len(d) & ~63  ↦  |d| - |d| mod 64
    #   (8*len(d)).to_bytes(8,'little')  ↦  leFixed 8 (8*|d|)   (OverflowError for |d| >= 2^61: outside the model)
    #   b"".join((h & 0xffffffff).to_bytes(4,'little') for h in state)  ↦  the four little-endian bytes of each word
    return ("""def blocks (state : UInt32 × UInt32 × UInt32 × UInt32 × UInt32) (X : Bytes) : UInt32 × UInt32 × UInt32 × UInt32 × UInt32 :=
  (List.range (X.length / 64)).foldl (fun state b =>
      compress state.1 state.2.1 state.2.2.1 state.2.2.2.1 state.2.2.2.2 ((X.drop (64 * b)).take (64 * (b + 1) - 64 * b))) state

def ripemd160 (%s : Bytes) : Bytes :=
  let state : UInt32 × UInt32 × UInt32 × UInt32 × UInt32 := (%s)
  let state := blocks state %s
  let pad : Bytes := [0x80] ++ List.replicate (((119 - (%s.length : Int)) %% 64).toNat) 0
  let fin := %s.drop (%s.length - %s.length %% 64) ++ pad ++ leFixed 8 (8 * %s.length)
  let state := blocks state fin
  Ripemd.u32LE state.1 ++ Ripemd.u32LE state.2.1 ++ Ripemd.u32LE state.2.2.1 ++ Ripemd.u32LE state.2.2.2.1 ++ Ripemd.u32LE state.2.2.2.2
""" % (d, ", ".join(str(c) for c in init), d, d, d, d, d, d)), init


def generate():
    src = open(os.path.join(REPO, "btc_hd_wallet", "ripemd.py"), encoding="utf-8").read()
    tree = ast.parse(src)
    fns = {n.name: n for n in tree.body if isinstance(n, ast.FunctionDef)}
    status = {}
    parts = []
    fail = {"fi": "def fi (x y z : UInt32) (i : Nat) : UInt32 := Code.translationFailed _\n",
            "rol": "def rol (x : UInt32) (i : Nat) : UInt32 := Code.translationFailed _\n",
            "compress": "def compress (h0 h1 h2 h3 h4 : UInt32) (block : Bytes) : UInt32 × UInt32 × UInt32 × UInt32 × UInt32 := Code.translationFailed _\n",
            "ripemd160": "def ripemd160 (data : Bytes) : Bytes := Code.translationFailed _\n"}
    for name, em in (("fi", emit_fi), ("rol", emit_rol), ("compress", emit_compress), ("ripemd160", emit_ripemd160)):
        key = "ripemd." + name
        try:
            if name not in fns:
                raise Unsupported("function missing")
            r = em(fns[name])
            txt = r[0] if isinstance(r, tuple) else r
            status[key] = "ok"
        except Unsupported as e:
            txt = fail[name]
            if name == "ripemd160":
                txt = "def blocks (state : UInt32 × UInt32 × UInt32 × UInt32 × UInt32) (X : Bytes) : UInt32 × UInt32 × UInt32 × UInt32 × UInt32 := Code.translationFailed _\n\n" + txt
            status[key] = "FAILED: %s" % e
        parts.append("/-- `ripemd.%s` -/\n%s" % (name, txt))
    hdr = ("-- GENERATED by harness/translate_obj6.py from /repo's working tree. Do not edit.\n"
           "import BtcHd.Model.Ripemd\nimport BtcHd.Generated.Code\n\n"
           "namespace BtcHd.CodeObj6\nopen BtcHd\nopen BtcHd.Ripemd (tbl)\n\n")
    return hdr + "\n".join(parts) + "\nend BtcHd.CodeObj6\n", status


def main():
    text, status = generate()
    old = open(OUT).read() if os.path.exists(OUT) else None
    if old != text:
        with open(OUT, "w") as f:
            f.write(text)
    bad = {k: v for k, v in status.items() if v != "ok"}
    print("translate_obj6: %d functions, %s%s" % (len(status), "changed" if old != text else "unchanged",
                                                   " ; FAILED: %s" % bad if bad else ""))
    return status


if __name__ == "__main__":
    main()
