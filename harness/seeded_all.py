#!/venv/bin/python
"""Run every seeded change against the check of the property it breaks; write seeded/MATRIX.json."""
import glob, json, os, subprocess, sys
V = os.path.dirname(os.path.dirname(os.path.abspath(__file__)))
rows = {}
for d in sorted(glob.glob(os.path.join(V, "seeded", "*", "meta.json"))):
    sd = os.path.dirname(d)
    p = subprocess.run([os.path.join(V, "harness", "seeded.py"), sd], capture_output=True, text=True)
    res = json.load(open(os.path.join(sd, "last_run.json")))
    meta = json.load(open(d))
    pid = meta["property"]
    r = res.get(pid, {})
    kind = "missed"
    if r.get("exit") == 1:
        kind = "no-failing-input-found" if any("no-failing-input-found" in l for l in r.get("lines", [])) else "failing-input"
    rows[os.path.basename(sd)] = {"property": pid, "result": kind, "seconds": r.get("s"), "summary": meta.get("summary", "")[:160]}
    print(os.path.basename(sd), pid, kind, flush=True)
json.dump(rows, open(os.path.join(V, "seeded", "MATRIX.json"), "w"), indent=1)
print("missed:", [k for k, v in rows.items() if v["result"] == "missed"])
