#!/venv/bin/python
"""Run every seeded change against the check of the property it breaks; write seeded/MATRIX.json.

Each worker has a PRIVATE copy of /repo (VERIF_REPO) with the patch applied and a PRIVATE copy of the Lean project
(VERIF_LEAN_DIR), so the runs are independent of each other and of /repo itself (which is not touched).
  seeded_all.py [-j N] [name-prefix ...]"""
import glob, json, os, shutil, subprocess, sys, tempfile
from concurrent.futures import ThreadPoolExecutor
V = os.path.dirname(os.path.dirname(os.path.abspath(__file__)))
args = sys.argv[1:]
J = 6
if args[:1] == ["-j"]:
    J = int(args[1]); args = args[2:]
dirs = [os.path.dirname(d) for d in sorted(glob.glob(os.path.join(V, "seeded", "*", "meta.json")))]
if args:
    dirs = [d for d in dirs if any(os.path.basename(d).startswith(a) for a in args)]
base = tempfile.mkdtemp(prefix="verif_seeded_")
import queue
slots = queue.Queue()
for k in range(J):
    lean = os.path.join(base, "lean%d" % k)
    shutil.copytree(os.path.join(V, "lean"), lean, symlinks=True)
    slots.put((k, lean))


def run(sd):
    k, lean = slots.get()
    repo = os.path.join(base, "repo%d" % k)
    try:
        shutil.rmtree(repo, ignore_errors=True)
        subprocess.run(["git", "-C", "/repo", "worktree", "prune"], capture_output=True)
        os.makedirs(repo)
        ar = subprocess.run(["git", "-C", "/repo", "archive", "HEAD"], capture_output=True, check=True)   # committed state
        subprocess.run(["tar", "-x", "-C", repo], input=ar.stdout, check=True)
        subprocess.run(["git", "init", "-q"], cwd=repo, check=True)
        ap = subprocess.run(["git", "apply", os.path.join(sd, "patch.diff")], cwd=repo, capture_output=True, text=True)
        if ap.returncode != 0:
            print(os.path.basename(sd), "PATCH DOES NOT APPLY", ap.stderr[-200:], flush=True)
            return os.path.basename(sd), {"property": "?", "result": "patch-does-not-apply", "summary": ""}
        meta = json.load(open(os.path.join(sd, "meta.json")))
        pid = meta["property"]
        env = dict(os.environ, VERIF_REPO=repo, VERIF_LEAN_DIR=lean, PYTHONPATH=repo, VERIF_OUT_DIR=os.path.join(base, "out%d" % k))
        p = subprocess.run([os.path.join(V, "check"), pid, "--tier", "quick"], cwd=V, capture_output=True, text=True, env=env)
        viol = [l for l in p.stdout.splitlines() if l.startswith("VIOLATION") or "failing input" in l]
        kind = "missed"
        if p.returncode == 1:
            kind = "no-failing-input-found" if any("no-failing-input-found" in l for l in viol) else "failing-input"
        elif p.returncode != 0:
            kind = "error rc=%d %s" % (p.returncode, p.stdout[-200:])
        json.dump({pid: {"exit": p.returncode, "lines": viol[:3]}}, open(os.path.join(sd, "last_run.json"), "w"), indent=1)
        print(os.path.basename(sd), pid, kind, flush=True)
        return os.path.basename(sd), {"property": pid, "result": kind, "summary": meta.get("summary", "")[:160]}
    finally:
        slots.put((k, lean))


with ThreadPoolExecutor(J) as ex:
    rows = dict(ex.map(run, dirs))
shutil.rmtree(base, ignore_errors=True)
if not args:
    json.dump(rows, open(os.path.join(V, "seeded", "MATRIX.json"), "w"), indent=1)
print("missed:", [k for k, v in rows.items() if v["result"] != "failing-input"])
