#!/venv/bin/python
"""Regenerate everything that is derived from /repo's working tree: the extracted constants (Generated/*.lean) and the
machine-translated functions (Generated/Code.lean, CodeObj.lean, CodeObj2.lean, CodeObj3.lean, CodeObj4.lean, CodeObj5.lean, CodeObj6.lean)."""
import os
import sys

sys.path.insert(0, os.path.dirname(os.path.abspath(__file__)))
import extract            # noqa: E402
import translate          # noqa: E402
import translate_obj      # noqa: E402
import translate_obj2     # noqa: E402
import translate_obj3     # noqa: E402
import translate_obj4     # noqa: E402
import translate_obj5     # noqa: E402
import translate_obj6     # noqa: E402

if __name__ == "__main__":
    extract.main()
    st = {}
    for m in (translate, translate_obj, translate_obj2, translate_obj3, translate_obj4, translate_obj5, translate_obj6):
        st.update(m.main())
    bad = {k: v for k, v in st.items() if v != "ok"}
    print("regen: %d functions translated%s" % (len(st), "; FAILED: %s" % sorted(bad) if bad else ""))
