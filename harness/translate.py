#!/venv/bin/python
"""Translator: a small, explicitly delimited subset of Python  ->  Lean 4.

On every run the functions listed in TARGETS are read from /repo's working tree (Python `ast`) and re-emitted as
Lean definitions in lean/BtcHd/Generated/Code.lean (namespace BtcHd.Code).  lean/BtcHd/Props/Translated*.lean proves
each translated function equal to the hand-written model function the property theorems are about, so for these
functions the tie between code and model is a THEOREM re-checked against what the source says now (not only the
differential run).  A construct outside the subset makes the translator emit a stub that cannot be proved equal
(`translationFailed`), which surfaces as a broken proof obligation — never silently as success.

Subset: integer (modelled as Nat: every target computes on non-negative integers; `-` is Nat subtraction and each
use is listed in the generated file so the equivalence proof has to justify it through the model), lists, simple
strings as List Char, `for x in xs`, `for i in range(..)`, bounded `while`, if/elif/else, early `return`, `raise`
(-> none in Option-returning functions), list comprehension over one iterable, conditional expressions, slices with
non-negative bounds, `len`, `ord`, `.append`.
"""
import ast
import os
import sys

REPO = os.environ.get("VERIF_REPO", "/repo")
HERE = os.path.dirname(os.path.abspath(__file__))
OUT = os.path.join(os.environ.get("VERIF_LEAN_DIR") or os.path.join(os.path.dirname(HERE), "lean"), "BtcHd", "Generated", "Code.lean")

# (python file, qualified function, lean name, args [(name, lean type)], return lean type, options)
TARGETS = [
    ("bech32.py", "bech32_polymod", "bech32_polymod", [("values", "List Nat")], "Nat", {}),
    ("bech32.py", "bech32_hrp_expand", "bech32_hrp_expand", [("hrp", "List Char")], "List Nat", {}),
    ("bech32.py", "bech32_verify_checksum", "bech32_verify_checksum",
     [("hrp", "List Char"), ("data", "List Nat")], "Option Bech32.Encoding", {"option": True}),
    ("bech32.py", "bech32_create_checksum", "bech32_create_checksum",
     [("hrp", "List Char"), ("data", "List Nat"), ("spec", "Bech32.Encoding")], "List Nat", {}),
    ("bech32.py", "convertbits", "convertbits",
     [("data", "List Nat"), ("frombits", "Nat"), ("tobits", "Nat"), ("pad", "Bool")], "Option (List Nat)",
     {"option": True, "while_fuel": "bits + 1", "lists": ["ret", "data"]}),
    ("helper.py", "int_to_little_endian", "int_to_little_endian", [("n", "Nat"), ("length", "Nat")],
     "Option Bytes", {"option": True}),
    ("helper.py", "encode_varint", "encode_varint", [("i", "Nat")], "Option Bytes", {"option": True}),
    ("bip39.py", "checksum_length", "checksum_length", [("entropy_bits", "Nat")], "Nat", {}),
    ("bip39.py", "mnemonic_sentence_length", "mnemonic_sentence_length", [("entropy_bits", "Nat")], "Nat", {}),
    ("bip85.py", "BIP85DeterministicEntropy.byte_count_from_word_count", "byte_count_from_word_count",
     [("word_count", "Nat")], "Option Nat", {"option": True}),
    ("wallet_utils.py", "Bip32Path.convert_hardened", "convert_hardened", [("str_int", "List Char")],
     "Option Nat", {"option": True, "strings": ["str_int", "digits"]}),
    ("wallet_utils.py", "Bip32Path.is_hardened", "is_hardened", [("num", "Nat")], "Bool", {}),
    # ---- second batch: Base58 (C10), byte/int helpers, BIP39 sentence construction (C04)
    ("helper.py", "little_endian_to_int", "little_endian_to_int", [("b", "Bytes")], "Nat", {}),
    ("helper.py", "big_endian_to_int", "big_endian_to_int", [("b", "Bytes")], "Nat", {}),
    ("helper.py", "int_to_big_endian", "int_to_big_endian", [("n", "Nat"), ("length", "Nat")],
     "Option Bytes", {"option": True}),
    ("helper.py", "encode_base58", "encode_base58", [("data", "Bytes")], "List Char",
     {"while_fuel": "num + 1", "strings": ["prefix", "result"]}),
    ("helper.py", "decode_base58", "decode_base58", [("s", "List Char")], "Option Bytes",
     {"option": True, "strings": ["s", "h"], "lists": ["res"]}),
    ("helper.py", "encode_base58_checksum", "encode_base58_checksum", [("data", "Bytes")], "List Char",
     {"extra": [("hash256", "Bytes → Bytes")]}),
    ("helper.py", "decode_base58_checksum", "decode_base58_checksum", [("s", "List Char")], "Option Bytes",
     {"option": True, "extra": [("hash256", "Bytes → Bytes")], "lists": ["num_bytes", "checksum"]}),
    ("helper.py", "b58decode_addr", "b58decode_addr", [("s", "List Char")], "Option Bytes",
     {"option": True, "extra": [("hash256", "Bytes → Bytes")]}),
    # ---- third batch: the Bech32 / segwit-address codec (C11)
    ("bech32.py", "bech32_encode", "bech32_encode", [("hrp", "List Char"), ("data", "List Nat"), ("spec", "Bech32.Encoding")],
     "Option (List Char)", {"option": True, "lists": ["combined"]}),
    ("bech32.py", "bech32_decode", "bech32_decode", [("bech", "List Char")],
     "Option (List Char × List Nat × Bech32.Encoding)", {"option": True, "ints": ["pos"], "strings": ["hrp"], "lists": ["data"]}),
    ("bech32.py", "decode", "decode", [("hrp", "List Char"), ("addr", "List Char")], "Option (Nat × List Nat)",
     {"option": True, "lists": ["data", "decoded"], "strings": ["hrpgot"]}),
    ("bech32.py", "encode", "encode", [("hrp", "List Char"), ("witver", "Nat"), ("witprog", "Bytes")],
     "Option (List Char)", {"option": True, "strings": ["ret"]}),
    # ---- fourth batch: script / varint wire format (C19).  A `BytesIO` argument `s` becomes the list of unread bytes and
    # every function that reads from it also returns the rest (state passing); `Script.cmds` is a `List Script.Cmd`
    ("helper.py", "read_exact", "read_exact", [("s", "Bytes"), ("n", "Nat")], "Option (Bytes × Bytes)",
     {"option": True, "stream": "s", "lists": ["data"]}),
    ("helper.py", "read_varint", "read_varint", [("s", "Bytes")], "Option (Nat × Bytes)",
     {"option": True, "stream": "s"}),
    ("script.py", "Script.raw_serialize", "raw_serialize", [("cmds", "List Script.Cmd")], "Option Bytes",
     {"option": True, "lists": ["result"], "self_attrs": {"cmds": "cmds"}, "cmd_var": "cmd"}),
    ("script.py", "Script.serialize", "serialize", [("cmds", "List Script.Cmd")], "Option Bytes",
     {"option": True, "lists": ["result"], "self_attrs": {"cmds": "cmds"}, "self_calls": {"raw_serialize": ["cmds"]}}),
    ("script.py", "Script.parse", "script_parse", [("s", "Bytes")], "Option (List Script.Cmd × Bytes)",
     {"option": True, "stream": "s", "cmd_list": "cmds", "while_fuel": "(s).length + 1", "lists": ["current"],
      "ctor_returns": "cls"}),
    # ---- sixth batch: address / WIF / script-template helpers (C05, C09)
    ("helper.py", "h160_to_p2pkh_address", "h160_to_p2pkh_address", [("h160", "Bytes"), ("testnet", "Bool")],
     "List Char", {"extra": [("hash256", "Bytes → Bytes")], "lists": ["prefix"]}),
    ("helper.py", "h160_to_p2sh_address", "h160_to_p2sh_address", [("h160", "Bytes"), ("testnet", "Bool")],
     "List Char", {"extra": [("hash256", "Bytes → Bytes")], "lists": ["prefix"]}),
    ("helper.py", "h160_to_p2wpkh_address", "h160_to_p2wpkh_address",
     [("h160", "Bytes"), ("testnet", "Bool"), ("witver", "Nat")], "Option (List Char)",
     {"option": True, "strings": ["hrp"]}),
    ("helper.py", "h256_to_p2wsh_address", "h256_to_p2wsh_address",
     [("h256", "Bytes"), ("testnet", "Bool"), ("witver", "Nat")], "Option (List Char)",
     {"option": True, "strings": ["hrp"]}),
    ("keys.py", "PrivateKey.wif", "private_key_wif", [("secret", "Bytes"), ("compressed", "Bool"), ("testnet", "Bool")],
     "List Char", {"extra": [("hash256", "Bytes → Bytes")], "lists": ["prefix", "suffix"], "bytes_self": "secret",
                   "self_attrs": {"_": "_"}}),
    ("script.py", "p2pkh_script", "p2pkh_script", [("h160", "Bytes")], "List Script.Cmd", {"script_ctor": True}),
    ("script.py", "p2sh_script", "p2sh_script", [("h160", "Bytes")], "List Script.Cmd", {"script_ctor": True}),
    ("script.py", "p2wpkh_script", "p2wpkh_script", [("h160", "Bytes")], "List Script.Cmd", {"script_ctor": True}),
    ("script.py", "p2wsh_script", "p2wsh_script", [("h256", "Bytes")], "List Script.Cmd", {"script_ctor": True}),
    # ---- seventh batch: the path parser (C17).  The object is represented by its five optional slots and the private flag
    ("wallet_utils.py", "list_get", "list_get", [("lst", "List (List Char)"), ("i", "Nat")], "Option (List Char)",
     {"custom": "list_get"}),
    ("wallet_utils.py", "Bip32Path.is_private", "is_private", [("sign", "List Char")], "Bool", {"strings": ["sign"]}),
    ("wallet_utils.py", "Bip32Path.integrity_check", "integrity_check", [("slots", "List (Option Nat)")], "Option Unit",
     {"option": True, "custom": "integrity_check"}),
    ("wallet_utils.py", "Bip32Path.parse", "path_parse", [("s", "List Char")], "Option (List (Option Nat) × Bool)",
     {"option": True, "custom": "path_parse"}),
    # ---- fifth batch: the argument validators of the command line (C20)
    ("__main__.py", "value_in_interval", "value_in_interval",
     [("value", "List Char"), ("min_", "Nat"), ("max_", "Nat"), ("name", "List Char")], "Option Int",
     {"option": True, "retype": {"value": "value_int"}, "ints": ["value_int"], "strings": ["name"]}),
    ("__main__.py", "address_index", "address_index", [("value", "List Char")], "Option Int",
     {"option": True, "strings": ["name"]}),
    ("__main__.py", "account_index", "account_index", [("value", "List Char")], "Option Int",
     {"option": True, "strings": ["name"]}),
    ("__main__.py", "extended_key", "extended_key_arg", [("value", "List Char")], "Option (List Char)", {"option": True}),
    ("__main__.py", "mnemonic", "mnemonic_arg", [("value", "List Char")], "Option (List Char)", {"option": True}),
    ("__main__.py", "bip39_seed", "bip39_seed_arg", [("value", "List Char")], "Option (List Char)", {"option": True}),
    ("__main__.py", "entropy_hex", "entropy_hex_arg", [("value", "List Char")], "Option (List Char)", {"option": True}),
    ("bip39.py", "correct_entropy_bits_value", "correct_entropy_bits_value", [("entropy_bits", "Nat")],
     "Option Unit", {"option": True}),
    ("bip39.py", "mnemonic_from_entropy", "mnemonic_from_entropy", [("entropy", "List Char")],
     "Option (List Char)", {"option": True, "extra": [("sha256", "Bytes → Bytes")],
                            "strings": ["checksum", "entropy_checksum"],
                            "lists": ["entropy_bytes", "sha256_entropy_bytes", "bin_indexes", "indexes", "mnemonic_lst"]}),
]

# names of module-level constants / enum members -> Lean terms
GLOBALS = {
    "BECH32M_CONST": "Generated.bech32mConst",
    "CHARSET": "Generated.charset",
    "CORRECT_MNEMONIC_LENGTH": "Generated.correctMnemonicLength",
    "CORRECT_ENTROPY_BITS": "Generated.correctEntropyBits",
    "BASE58_ALPHABET": "Generated.base58Alphabet",
    "Encoding.BECH32": "Bech32.Encoding.bech32",
    "Encoding.BECH32M": "Bech32.Encoding.bech32m",
    "None": "none",
}
OPTION_FUNCS = {t[2] for t in TARGETS if t[5].get("option")}
KNOWN_FUNCS = {t[1].split(".")[-1]: t[2] for t in TARGETS}
EXTRA_PARAMS = {t[2]: [a for a, _ in t[5].get("extra", [])] for t in TARGETS}
STRING_GLOBALS = {"BASE58_ALPHABET", "CHARSET"}
ARG_TYPES = {t[2]: [ty for _, ty in t[3]] for t in TARGETS}
PY_DEFAULTS = {}       # lean name -> list of python default expressions (filled while parsing)
STREAM_FUNCS = {"read_exact", "read_varint"}
LISTY_FUNCS = {"bech32_hrp_expand", "int_to_little_endian", "bech32_create_checksum", "int_to_big_endian",
               "decode_base58", "decode_base58_checksum", "encode_base58", "encode_base58_checksum", "hash256", "sha256"}


class Unsupported(Exception):
    pass


BINOPS = {ast.Add: "+", ast.Sub: "-", ast.Mult: "*", ast.FloorDiv: "/", ast.Mod: "%", ast.LShift: "<<<",
          ast.RShift: ">>>", ast.BitAnd: "&&&", ast.BitOr: "|||", ast.BitXor: "^^^"}
CMPOPS = {ast.Eq: "=", ast.NotEq: "≠", ast.Lt: "<", ast.LtE: "≤", ast.Gt: ">", ast.GtE: "≥"}


class Fn:
    def __init__(self, node, lean_name, args, ret, opts):
        self.node, self.name, self.args, self.rettype, self.opts = node, lean_name, args, ret, opts
        self.option = bool(opts.get("option"))
        self.lists = set(opts.get("lists", [])) | {a for a, t in args if t.startswith("List") or t == "Bytes"}
        self.strings = set(opts.get("strings", [])) | {a for a, t in args if t == "List Char"}
        self.nat_subs = []
        self.bools = {a for a, t in args if t == "Bool"}
        self.declared = [set(a for a, _ in args)]
        self.opts = opts
        self.retype = opts.get("retype", {})
        self.renamed = {}
        self.stream = opts.get("stream")
        self.self_attrs = opts.get("self_attrs", {})
        self.self_calls = opts.get("self_calls", {})
        self.cmd_var = opts.get("cmd_var")
        self.cmd_list = opts.get("cmd_list")
        self.ctor_returns = opts.get("ctor_returns")
        self.bytes_locals = set()
        self.hoist_n = 0
        self.ints = set(opts.get("ints", []))
        self.bound_opts = set()         # variables assigned from an option-returning call by bind (never None afterwards)
        self.bytes_vars = {a for a, t in args if t == "Bytes"}
        self.extra = opts.get("extra", [])
        self.extra_names = {a for a, _ in self.extra}

    # ---------------------------------------------------------------- expressions
    def is_listy(self, e):
        if isinstance(e, (ast.List, ast.ListComp)):
            return True
        if isinstance(e, ast.Constant) and isinstance(e.value, (bytes, str)):
            return True
        if isinstance(e, ast.Name) and (e.id in self.lists or e.id in self.strings):
            return True
        if isinstance(e, ast.BinOp) and isinstance(e.op, ast.Add):
            return self.is_listy(e.left) or self.is_listy(e.right)
        if isinstance(e, ast.Call) and isinstance(e.func, ast.Name) and e.func.id in LISTY_FUNCS:
            return True
        if isinstance(e, ast.BinOp) and isinstance(e.op, ast.Mult) and isinstance(e.left, ast.Constant) and \
                isinstance(e.left.value, (bytes, str)):
            return True
        if self.is_char(e):
            return True
        if isinstance(e, ast.IfExp):
            return self.is_listy(e.body) or self.is_listy(e.orelse)
        if isinstance(e, ast.Subscript) and isinstance(e.slice, ast.Slice):
            return True
        return False

    def is_char(self, e):
        """a one-character string value: `STR[i]` of a string global / variable, or a 1-character literal"""
        if isinstance(e, ast.Constant) and isinstance(e.value, str) and len(e.value) == 1:
            return True
        if isinstance(e, ast.Subscript) and not isinstance(e.slice, ast.Slice) and isinstance(e.value, ast.Name) and \
                (e.value.id in STRING_GLOBALS or e.value.id in self.strings):
            return True
        return False

    def nat(self, e):
        """an index / slice bound as a Nat: an expression over Int-typed variables is converted with toNat (Python would
        wrap a negative bound around; every use in the targets comes after a test that excludes negative values)"""
        t = self.expr(e)
        if any(isinstance(n, ast.Name) and n.id in self.ints for n in ast.walk(e)):
            return "(%s).toNat" % t
        return t

    def as_list(self, e):
        """expression as a list (a character becomes a one-element list)"""
        t = self.expr(e)
        return "[%s]" % t if self.is_char(e) else t

    def expr(self, e):
        if isinstance(e, ast.Constant):
            v = e.value
            if isinstance(v, bool):
                return "true" if v else "false"
            if isinstance(v, int):
                if v < 0:
                    raise Unsupported("negative literal")
                return str(v)
            if v is None:
                return "none"
            if isinstance(v, bytes):
                return "([" + ", ".join(str(b) for b in v) + "] : Bytes)"
            if isinstance(v, str):
                if len(v) == 1:
                    return "(Char.ofNat %d)" % ord(v)
                return "([" + ", ".join("Char.ofNat %d" % ord(c) for c in v) + "] : List Char)"
            raise Unsupported("constant %r" % (v,))
        if isinstance(e, ast.Name):
            if e.id in GLOBALS:
                return GLOBALS[e.id]
            return self.ident(e.id)
        if isinstance(e, ast.Attribute):
            q = ast.unparse(e)
            if q in GLOBALS:
                return GLOBALS[q]
            if isinstance(e.value, ast.Name) and e.value.id == "self" and e.attr in self.self_attrs:
                return self.self_attrs[e.attr]
            raise Unsupported("attribute " + q)
        if isinstance(e, ast.BinOp):
            if isinstance(e.op, ast.Add) and self.is_listy(e):
                return "(%s ++ %s)" % (self.as_list(e.left), self.as_list(e.right))
            if isinstance(e.op, ast.Mult) and isinstance(e.left, ast.Constant) and isinstance(e.left.value, (bytes, str)) \
                    and len(e.left.value) == 1:
                v = e.left.value
                elem = "(Char.ofNat %d)" % ord(v) if isinstance(v, str) else "(%d : UInt8)" % v[0]
                return "(List.replicate %s %s)" % (self.expr(e.right), elem)
            if isinstance(e.op, ast.Pow):
                return "(%s ^ %s)" % (self.expr(e.left), self.expr(e.right))
            if isinstance(e.op, ast.Div):
                raise Unsupported("true division outside int(a / b)")
            if type(e.op) not in BINOPS:
                raise Unsupported("operator " + type(e.op).__name__)
            if isinstance(e.op, ast.Sub):
                self.nat_subs.append(ast.unparse(e))
            return "(%s %s %s)" % (self.expr(e.left), BINOPS[type(e.op)], self.expr(e.right))
        if isinstance(e, ast.UnaryOp) and isinstance(e.op, ast.Not):
            return "(¬ %s)" % self.cond(e.operand)
        if isinstance(e, ast.IfExp):
            return "(if %s then %s else %s)" % (self.cond(e.test), self.expr(e.body), self.expr(e.orelse))
        if isinstance(e, ast.List):
            return "[" + ", ".join(self.expr(x) for x in e.elts) + "]"
        if isinstance(e, ast.Tuple):
            return "(" + ", ".join(self.expr(x) for x in e.elts) + ")"
        if isinstance(e, ast.ListComp):
            if len(e.generators) != 1 or e.generators[0].ifs:
                raise Unsupported("comprehension shape")
            g = e.generators[0]
            if not isinstance(g.target, ast.Name):
                raise Unsupported("comprehension target")
            if self.option and self.is_char(e.elt) and isinstance(e.elt, ast.Subscript) and \
                    isinstance(e.elt.slice, ast.Name) and e.elt.slice.id == g.target.id:
                # [STR[d] for d in xs]: an index outside the string raises IndexError -> none
                return "(← (%s).mapM (fun %s => (%s)[%s]?))" % (self.iterable(g.iter), self.ident(g.target.id),
                                                              self.expr(e.elt.value), self.ident(g.target.id))
            if isinstance(e.elt, ast.Subscript) and isinstance(e.elt.value, ast.Name) and e.elt.value.id == "word_list" \
                    and isinstance(e.elt.slice, ast.Name) and e.elt.slice.id == g.target.id:
                if not self.option:
                    raise Unsupported("word_list lookup in total function")
                return "(← (%s).mapM Bip39.wordAt)" % self.iterable(g.iter)      # IndexError -> none
            return "((%s).map (fun %s => %s))" % (self.iterable(g.iter), self.ident(g.target.id), self.expr(e.elt))
        if isinstance(e, ast.Subscript):
            if isinstance(e.slice, ast.Slice) and isinstance(e.value, ast.Call) and isinstance(e.value.func, ast.Name) \
                    and e.value.func.id in ("hex", "bin") and e.slice.upper is None and e.slice.step is None \
                    and isinstance(e.slice.lower, ast.Constant) and e.slice.lower.value == 2:
                # hex(n)[2:] / bin(n)[2:] for n >= 0: the digits without the 0x / 0b prefix
                fn = "Py.hexStr" if e.value.func.id == "hex" else "Bip39.binStr"
                return "(%s %s)" % (fn, self.expr(e.value.args[0]))
            if isinstance(e.slice, ast.Slice) and e.slice.upper is None and e.slice.step is None and \
                    isinstance(e.slice.lower, ast.UnaryOp) and isinstance(e.slice.lower.op, ast.USub):
                return "(lastN %s %s)" % (self.expr(e.slice.lower.operand), self.expr(e.value))
            base = self.expr(e.value)
            if isinstance(e.slice, ast.Slice):
                lo = self.nat(e.slice.lower) if e.slice.lower is not None else None
                hi = e.slice.upper
                if e.slice.step is not None:
                    raise Unsupported("slice step")
                if hi is not None and isinstance(hi, ast.UnaryOp) and isinstance(hi.op, ast.USub):
                    if lo is not None:
                        raise Unsupported("slice [a:-b]")
                    return "(dropLastN %s %s)" % (self.expr(hi.operand), base)
                if hi is None:
                    return "(%s.drop %s)" % (base, lo or "0")
                if lo is None:
                    return "(%s.take %s)" % (base, self.nat(hi))
                return "((%s.drop %s).take (%s - %s))" % (base, lo, self.nat(hi), lo)
            idx = e.slice
            if isinstance(e.value, ast.Name) and e.value.id in self.bytes_locals:
                return "((%s[%s]!).toNat)" % (base, self.expr(idx))       # indexing a bytes object gives an int
            if isinstance(idx, ast.UnaryOp) and isinstance(idx.op, ast.USub) and \
                    isinstance(idx.operand, ast.Constant) and idx.operand.value == 1:
                return "(%s.getLast?)" % base       # xs[-1]; callers compare it / must handle none
            return "(%s[%s]!)" % (base, self.expr(idx))
        if isinstance(e, ast.Call):
            return self.call(e)
        if isinstance(e, (ast.Compare, ast.BoolOp)):
            return "(decide %s)" % self.cond(e)
        raise Unsupported("expression " + type(e).__name__)

    def call(self, e, bind=True):
        f = e.func
        if isinstance(f, ast.Name) and f.id in ("any", "all") and len(e.args) == 1 and \
                isinstance(e.args[0], ast.GeneratorExp) and len(e.args[0].generators) == 1 and \
                not e.args[0].generators[0].ifs and isinstance(e.args[0].generators[0].target, ast.Name):
            g = e.args[0].generators[0]
            return "((%s).%s (fun %s => decide %s))" % (self.iterable(g.iter), f.id, self.ident(g.target.id),
                                                       self.cond(e.args[0].elt))
        if isinstance(f, ast.Name):
            if f.id == "bytes" and len(e.args) == 1 and isinstance(e.args[0], ast.Name) and e.args[0].id == "self" \
                    and self.opts.get("bytes_self"):
                return self.opts["bytes_self"]
            if f.id == "Script" and self.opts.get("script_ctor") and len(e.args) == 1 and isinstance(e.args[0], ast.List):
                items = []
                for x in e.args[0].elts:
                    t = self.expr(x)
                    is_b = isinstance(x, ast.Name) and x.id in self.bytes_vars
                    items.append("(Script.Cmd.data %s)" % t if is_b else "(Script.Cmd.op %s)" % t)
                return "[" + ", ".join(items) + "]"
            if f.id == "len" and len(e.args) == 1:
                return "(%s).length" % self.expr(e.args[0])
            if f.id == "ord" and len(e.args) == 1:
                return "(%s).toNat" % self.expr(e.args[0])
            if f.id == "int" and len(e.args) == 1:
                a = e.args[0]
                if isinstance(a, ast.BinOp) and isinstance(a.op, ast.Div):
                    # int(a / b): float division then truncation; exact for the guarded sizes, floor otherwise
                    return "(%s / %s)" % (self.expr(a.left), self.expr(a.right))
                if isinstance(a, ast.Name) and a.id in self.retype and a.id not in self.renamed:
                    if not self.option:
                        raise Unsupported("int(text) in a total function")
                    return "(← Cli.pyInt %s)" % self.expr(a)      # int() of arbitrary text: ValueError -> none
                if isinstance(a, ast.Name) and a.id in self.strings or (
                        isinstance(a, ast.Subscript) and isinstance(a.value, ast.Name) and a.value.id in self.strings):
                    return "(Text.decVal %s)" % self.expr(a)
                if isinstance(a, ast.Name):
                    return self.expr(a)
                raise Unsupported("int() of " + ast.unparse(a))
            if f.id == "int" and len(e.args) == 2 and isinstance(e.args[1], ast.Constant) and e.args[1].value == 2:
                return "(Bip39.binVal %s)" % self.expr(e.args[0])       # int(s, 2) of a string of 0/1
            if f.id in self.extra_names:                                  # a primitive passed in as a parameter
                return "(%s %s)" % (f.id, " ".join(self.expr(a) for a in e.args))
            if f.id in KNOWN_FUNCS:
                lean = KNOWN_FUNCS[f.id]
                for x in EXTRA_PARAMS.get(lean, []):
                    if x not in self.extra_names:
                        raise Unsupported("callee %s needs the primitive %s" % (f.id, x))
                pyargs = list(e.args) + [k.value for k in e.keywords]
                n_params = len(ARG_TYPES.get(lean, pyargs))
                if len(pyargs) < n_params:          # trailing parameters left to their Python defaults
                    dflt = PY_DEFAULTS.get(lean, [])
                    missing = n_params - len(pyargs)
                    if missing > len(dflt):
                        raise Unsupported("call of %s with too few arguments" % f.id)
                    pyargs += dflt[len(dflt) - missing:]
                targs = []
                for i_, a_ in enumerate(pyargs):
                    t_ = self.expr(a_)
                    want = ARG_TYPES.get(lean, [None] * len(pyargs))[i_] if i_ < n_params else None
                    if want == "List Nat" and isinstance(a_, ast.Name) and a_.id in self.bytes_vars:
                        t_ = "(%s.map UInt8.toNat)" % t_        # a bytes object iterated as integers
                    targs.append(t_)
                args = EXTRA_PARAMS.get(lean, []) + targs
                txt = "(%s %s)" % (lean, " ".join(args))
                if lean in OPTION_FUNCS:
                    if not bind:
                        return txt
                    if not self.option:
                        raise Unsupported("option-returning callee in a total function")
                    return "(← %s)" % txt
                return txt
            raise Unsupported("call " + f.id)
        if isinstance(f, ast.Attribute) and isinstance(f.value, ast.Name) and f.value.id == "bech32" and \
                f.attr in KNOWN_FUNCS:
            return self.call(ast.Call(func=ast.Name(id=f.attr, ctx=ast.Load()), args=e.args, keywords=e.keywords), bind)
        if isinstance(f, ast.Attribute):
            if f.attr == "from_bytes" and isinstance(f.value, ast.Name) and f.value.id == "int" and len(e.args) == 2 \
                    and isinstance(e.args[1], ast.Constant):
                fn = {"little": "leToNat", "big": "beToNat"}[e.args[1].value]
                return "(%s %s)" % (fn, self.expr(e.args[0]))
            if f.attr == "fromhex" and isinstance(f.value, ast.Name) and f.value.id == "bytes" and len(e.args) == 1:
                if not self.option:
                    raise Unsupported("bytes.fromhex in total function")
                return "(← fromHex %s)" % self.expr(e.args[0])
            if f.attr == "index" and isinstance(f.value, ast.Name) and f.value.id in STRING_GLOBALS and len(e.args) == 1:
                return "(%s.idxOf %s)" % (self.expr(f.value), self.expr(e.args[0]))     # only reached after `c in STR`
            if f.attr in self.self_calls and isinstance(f.value, ast.Name) and f.value.id == "self":
                lean = KNOWN_FUNCS[f.attr]
                txt = "(%s %s)" % (lean, " ".join(self.self_calls[f.attr] + [self.expr(a) for a in e.args]))
                return "(← %s)" % txt if lean in OPTION_FUNCS else txt
            if f.attr == "split" and len(e.args) == 1 and self.is_char(e.args[0]):
                return "(Text.splitOn %s %s)" % (self.expr(e.args[0]), self.expr(f.value))
            if f.attr == "strip" and not e.args:
                return "(Text.strip %s)" % self.expr(f.value)        # ASCII white space (see Model/Text.lean)
            if f.attr == "rfind" and len(e.args) == 1 and self.is_char(e.args[0]):
                return "(Py.rfind %s %s)" % (self.expr(f.value), self.expr(e.args[0]))      # Int, -1 when absent
            if f.attr in ("lower", "upper") and not e.args and isinstance(f.value, ast.Name) and f.value.id in self.strings:
                # str.lower()/upper(): ASCII case mapping (exact on ASCII strings; the targets test the range first)
                return "(%s.map Py.%sAscii)" % (self.expr(f.value), f.attr)
            if f.attr == "find" and isinstance(f.value, ast.Name) and f.value.id in STRING_GLOBALS and len(e.args) == 1:
                # STR.find(c): position (Python: -1 when absent, here the length; every use follows `c in STR`)
                return "(%s.idxOf %s)" % (self.expr(f.value), self.expr(e.args[0]))
            if f.attr == "join" and isinstance(f.value, ast.Constant) and f.value.value == "" and len(e.args) == 1 and \
                    isinstance(e.args[0], ast.ListComp) and self.is_char(e.args[0].elt):
                return self.expr(e.args[0])             # ''.join of one-character strings = the list of characters
            if f.attr == "zfill" and len(e.args) == 1:
                return "(Bip39.zfill %s %s)" % (self.expr(e.args[0]), self.expr(f.value))
            if f.attr == "findall" and isinstance(f.value, ast.Name) and f.value.id == "re" and len(e.args) == 2:
                pat = e.args[0]
                if isinstance(pat, ast.BinOp) and isinstance(pat.op, ast.Mult) and isinstance(pat.left, ast.Constant) \
                        and pat.left.value == ".":
                    k, txt = self.expr(pat.right), self.expr(e.args[1])
                    # re.findall("." * k, s): consecutive non-overlapping k-character chunks, remainder dropped
                    return "(Bip39.chunksExact %s ((%s).length / %s) %s)" % (k, txt, k, txt)
                raise Unsupported("re.findall pattern")
            if f.attr == "join" and isinstance(f.value, ast.Constant) and f.value.value == " " and len(e.args) == 1:
                return "(Bip39.sentence %s)" % self.expr(e.args[0])
            if f.attr == "to_bytes" and len(e.args) == 2 and isinstance(e.args[1], ast.Constant):
                fn = {"little": "toBytesLE", "big": "toBytesBE"}[e.args[1].value]
                if not self.option:
                    raise Unsupported("to_bytes in total function")
                return "(← %s %s %s)" % (fn, self.expr(e.args[0]), self.expr(f.value))
            if f.attr in ("isascii", "isdigit") and isinstance(f.value, ast.Name) and f.value.id in self.strings:
                s = self.expr(f.value)
                if f.attr == "isascii":
                    return "(%s.all (fun c => decide (c.toNat < 128)))" % s
                return "(decide (%s ≠ []) && %s.all (fun c => Char.isDigit c || decide (c.toNat ≥ 128)))" % (s, s)
            if f.attr == "format":
                return "([] : List Char)"        # error-message text: irrelevant (only reaches `raise`)
            q = ast.unparse(f)
            if f.attr in KNOWN_FUNCS and isinstance(f.value, ast.Name) and f.value.id in ("cls", "self"):
                lean = KNOWN_FUNCS[f.attr]
                args = [self.expr(a) for a in e.args]
                txt = "(%s %s)" % (lean, " ".join(args))
                return "(← %s)" % txt if lean in OPTION_FUNCS else txt
            raise Unsupported("method " + q)
        raise Unsupported("call shape")

    def iterable(self, it):
        if isinstance(it, ast.Call) and isinstance(it.func, ast.Name) and it.func.id == "range":
            a = [self.expr(x) for x in it.args]
            if len(a) == 1:
                return "List.range %s" % a[0]
            if len(a) == 2:
                return "List.range' %s (%s - %s)" % (a[0], a[1], a[0])
            raise Unsupported("range step")
        return self.expr(it)

    def cond(self, e):
        """a Lean Prop (decidable)"""
        if isinstance(e, ast.Compare):
            parts = []
            left = e.left
            for op, right in zip(e.ops, e.comparators):
                if isinstance(op, (ast.Is, ast.IsNot)) and isinstance(right, ast.Constant) and right.value is None:
                    if isinstance(left, ast.Name) and left.id in self.bound_opts:
                        # the variable was bound from an option-returning call: a None result already ended the function
                        parts.append("False" if isinstance(op, ast.Is) else "True")
                        left = right
                        continue
                    raise Unsupported("`is None` of a value that is not a bound option result")
                if isinstance(op, (ast.Eq, ast.NotEq)) and isinstance(right, ast.Tuple) and right.elts and \
                        all(isinstance(x, ast.Constant) and x.value is None for x in right.elts) and \
                        isinstance(left, ast.Call):
                    parts.append("(%s %s none)" % (self.call(left, bind=False), "=" if isinstance(op, ast.Eq) else "≠"))
                    left = right
                    continue
                if isinstance(op, (ast.In, ast.NotIn)):
                    if isinstance(right, ast.Tuple):
                        rhs = "[" + ", ".join(self.expr(x) for x in right.elts) + "]"
                    else:
                        rhs = self.expr(right)
                    lhs = self.expr(left)
                    if lhs.endswith(".getLast?)"):
                        rhs = "(%s).map some" % rhs
                    parts.append("(%s %s %s)" % (lhs, "∈" if isinstance(op, ast.In) else "∉", rhs))
                elif type(op) in CMPOPS:
                    l_, r_ = self.expr(left), self.expr(right)
                    if isinstance(left, ast.Name) and left.id in self.strings and self.is_char(right) and \
                            isinstance(right, ast.Constant):
                        r_ = "[%s]" % r_            # a whole string compared with a one-character literal
                    parts.append("(%s %s %s)" % (l_, CMPOPS[type(op)], r_))
                else:
                    raise Unsupported("comparison " + type(op).__name__)
                left = right
            return "(" + " ∧ ".join(parts) + ")"
        if isinstance(e, ast.BoolOp):
            j = " ∧ " if isinstance(e.op, ast.And) else " ∨ "
            return "(" + j.join(self.cond(v) for v in e.values) + ")"
        if isinstance(e, ast.UnaryOp) and isinstance(e.op, ast.Not):
            return "(¬ %s)" % self.cond(e.operand)
        if isinstance(e, ast.Name) and e.id in self.bools:
            return "(%s = true)" % self.ident(e.id)
        if isinstance(e, ast.Call) and isinstance(e.func, ast.Attribute) and e.func.attr in ("isascii", "isdigit"):
            return "(%s = true)" % self.expr(e)
        if isinstance(e, ast.Call) and isinstance(e.func, ast.Name) and e.func.id in ("any", "all"):
            return "(%s = true)" % self.expr(e)
        if self.is_listy(e):
            return "(%s ≠ [])" % self.expr(e)
        # integer truthiness
        return "(%s ≠ 0)" % self.expr(e)

    # ---------------------------------------------------------------- statements
    def ident(self, n):
        if n in getattr(self, "renamed", {}):
            return self.renamed[n]
        return {"from": "from_", "end": "end_", "at": "at_", "fun": "fun_", "show": "show_", "mod": "mod_",
                "prefix": "prefix_"}.get(n, n)

    def ret(self, txt):
        if self.option and txt != "none":
            return "return %s" % txt      # Option monad: `return x` is `some x`
        return "return %s" % txt

    def block(self, stmts, ind):
        out = []
        self.declared.append(set())
        for s in stmts:
            out += self.stmt(s, ind)
        self.declared.pop()
        if not out:
            out = [ind + "pure ()"]
        return out

    def is_declared(self, n):
        return any(n in d for d in self.declared)

    def hoist(self, s, ind):
        """state passing for the byte stream: every read_exact(s, n) / read_varint(s) / s.read(n) inside the statement is
        evaluated first, in source order, into a fresh local and the stream variable is advanced"""
        pre = []
        me = self

        class H(ast.NodeTransformer):
            def visit_Call(self, node):
                self.generic_visit(node)            # innermost first
                f = node.func
                st = me.stream
                if isinstance(f, ast.Name) and f.id in STREAM_FUNCS and node.args and \
                        isinstance(node.args[0], ast.Name) and node.args[0].id == st:
                    me.hoist_n += 1
                    v = "st%d" % me.hoist_n
                    args = " ".join([st] + [me.expr(a) for a in node.args[1:]])
                    pre.append(ind + "let (%s, %s_rest) ← (%s %s)" % (v, v, KNOWN_FUNCS[f.id], args))
                    pre.append(ind + "%s := %s_rest" % (st, v))
                    if f.id == "read_exact":
                        me.bytes_locals.add(v)
                        me.lists.add(v)
                    return ast.copy_location(ast.Name(id=v, ctx=ast.Load()), node)
                if isinstance(f, ast.Attribute) and f.attr == "read" and isinstance(f.value, ast.Name) and \
                        f.value.id == st and len(node.args) == 1:
                    me.hoist_n += 1
                    v = "st%d" % me.hoist_n
                    n_ = me.expr(node.args[0])
                    pre.append(ind + "let %s := (%s.take %s)" % (v, st, n_))       # BytesIO.read: at most n bytes
                    pre.append(ind + "%s := (%s.drop %s)" % (st, st, n_))
                    me.bytes_locals.add(v)
                    me.lists.add(v)
                    return ast.copy_location(ast.Name(id=v, ctx=ast.Load()), node)
                return node
        if isinstance(s, (ast.Assign, ast.AugAssign, ast.Return, ast.Expr)) and getattr(s, "value", None) is not None:
            s.value = H().visit(s.value)
        return pre

    def stmt(self, s, ind):
        if self.stream and isinstance(s, (ast.Assign, ast.AugAssign, ast.Return, ast.Expr)):
            pre = self.hoist(s, ind)
            if pre:
                return pre + self._stmt(s, ind)
        return self._stmt(s, ind)

    def _stmt(self, s, ind):
        if isinstance(s, ast.If) and self.cmd_var and isinstance(s.test, ast.Compare) and \
                isinstance(s.test.left, ast.Call) and isinstance(s.test.left.func, ast.Name) and \
                s.test.left.func.id == "type" and len(s.test.ops) == 1 and isinstance(s.test.ops[0], ast.Eq) and \
                isinstance(s.test.comparators[0], ast.Name) and s.test.comparators[0].id == "int" and \
                isinstance(s.test.left.args[0], ast.Name) and s.test.left.args[0].id == self.cmd_var:
            # `if type(cmd) == int: … else: …` on an element of Script.cmds: the two constructors of Script.Cmd
            v = self.ident(self.cmd_var)
            self.bytes_locals.discard(self.cmd_var)
            out = [ind + "match %s with" % v, ind + "| .op %s =>" % v] + self.block(s.body, ind + "  ")
            self.bytes_locals.add(self.cmd_var)
            self.lists.add(self.cmd_var)
            out += [ind + "| .data %s =>" % v] + self.block(s.orelse, ind + "  ")
            self.bytes_locals.discard(self.cmd_var)
            self.lists.discard(self.cmd_var)
            return out
        if isinstance(s, ast.Expr):
            if isinstance(s.value, ast.Constant) and isinstance(s.value.value, str):
                return []                          # docstring
            c = s.value
            if isinstance(c, ast.Call) and isinstance(c.func, ast.Attribute) and c.func.attr == "append" \
                    and isinstance(c.func.value, ast.Name):
                n = self.ident(c.func.value.id)
                item = self.expr(c.args[0])
                if c.func.value.id == self.cmd_list:
                    is_b = isinstance(c.args[0], ast.Name) and c.args[0].id in self.bytes_locals
                    item = "(Script.Cmd.data %s)" % item if is_b else "(Script.Cmd.op %s)" % item
                return [ind + "%s := %s ++ [%s]" % (n, n, item)]
            if isinstance(c, ast.Call) and isinstance(c.func, ast.Name) and c.func.id in KNOWN_FUNCS and \
                    KNOWN_FUNCS[c.func.id] in OPTION_FUNCS and self.option:
                t = self.call(c)            # "(← (f args))": run it for its failure only
                return [ind + "let _ := %s" % t]
            raise Unsupported("expression statement " + ast.unparse(s))
        if isinstance(s, ast.Assign) and len(s.targets) == 1 and isinstance(s.targets[0], ast.Tuple) and \
                isinstance(s.value, ast.Call) and isinstance(s.value.func, ast.Name) and s.value.func.id == "divmod" \
                and len(s.targets[0].elts) == 2 and all(isinstance(x, ast.Name) for x in s.targets[0].elts):
            q, r = (x.id for x in s.targets[0].elts)
            a, b = (self.expr(x) for x in s.value.args)
            out = [ind + "let divmod_a := %s" % a, ind + "let divmod_b := %s" % b]
            for n, op in ((q, "/"), (r, "%")):
                kw = "" if self.is_declared(n) else "let mut "
                if not self.is_declared(n):
                    self.declared[-1].add(n)
                out.append(ind + "%s%s := (divmod_a %s divmod_b)" % (kw, self.ident(n), op))
            return out
        if isinstance(s, ast.Assign) and len(s.targets) == 1 and isinstance(s.targets[0], ast.Tuple) and \
                isinstance(s.value, ast.Call) and isinstance(s.value.func, ast.Name) and \
                KNOWN_FUNCS.get(s.value.func.id) in OPTION_FUNCS and self.option and \
                all(isinstance(x, ast.Name) for x in s.targets[0].elts):
            names = [x.id for x in s.targets[0].elts]
            for n in names:
                if self.is_declared(n):
                    raise Unsupported("tuple unpacking into an existing variable")
                self.declared[-1].add(n)
                self.bound_opts.add(n)
            return [ind + "let (%s) ← %s" % (", ".join(self.ident(n) for n in names), self.call(s.value, bind=False))]
        if isinstance(s, ast.Assign):
            if len(s.targets) != 1 or not isinstance(s.targets[0], ast.Name):
                raise Unsupported("assignment target " + ast.unparse(s))
            if isinstance(s.value, ast.Call) and isinstance(s.value.func, ast.Name) and \
                    KNOWN_FUNCS.get(s.value.func.id) in OPTION_FUNCS:
                self.bound_opts.add(s.targets[0].id)
            n = s.targets[0].id
            if self.is_listy(s.value):
                self.lists.add(n)
            if isinstance(s.value, (ast.Compare, ast.BoolOp)):
                self.bools.add(n)
            if isinstance(s.value, ast.IfExp) and self.is_listy(s.value.body):
                (self.strings if isinstance(s.value.orelse, ast.Name) and s.value.orelse.id in self.strings
                 else self.lists).add(n)
            rhs = self.expr(s.value)
            if n in self.retype and n not in self.renamed:
                # the Python variable changes type here (str -> int): a fresh Lean variable takes over the name
                new = self.retype[n]
                self.renamed[n] = new
                self.declared[-1].add(new)
                self.strings.discard(n)
                return [ind + "let mut %s := %s" % (new, rhs)]
            if self.is_declared(n):
                return [ind + "%s := %s" % (self.ident(n), rhs)]
            self.declared[-1].add(n)
            ann = " : List Nat" if isinstance(s.value, ast.List) and not s.value.elts else ""
            if n == self.cmd_list and ann:
                ann = " : List Script.Cmd"
            if isinstance(s.value, ast.Name) and s.value.id in self.bytes_locals:
                self.bytes_locals.add(n)
                self.lists.add(n)
            if isinstance(s.value, ast.Constant) and isinstance(s.value.value, bytes):
                self.lists.add(n)
            return [ind + "let mut %s%s := %s" % (self.ident(n), ann, rhs)]
        if isinstance(s, ast.AugAssign):
            if not isinstance(s.target, ast.Name) or type(s.op) not in BINOPS:
                raise Unsupported("augmented assignment")
            n = self.ident(s.target.id)
            if isinstance(s.op, ast.Add) and (s.target.id in self.lists or s.target.id in self.strings):
                return [ind + "%s := (%s ++ %s)" % (n, n, self.as_list(s.value))]
            if isinstance(s.op, ast.Sub):
                self.nat_subs.append(ast.unparse(s))
            return [ind + "%s := (%s %s %s)" % (n, n, BINOPS[type(s.op)], self.expr(s.value))]
        if isinstance(s, ast.For):
            if not isinstance(s.target, ast.Name) or s.orelse:
                raise Unsupported("for shape")
            head = ind + "for %s in %s do" % (self.ident(s.target.id), self.iterable(s.iter))
            self.declared.append({s.target.id})
            body = self.block(s.body, ind + "  ")
            self.declared.pop()
            return [head] + body
        if isinstance(s, ast.While):
            fuel = self.opts.get("while_fuel")
            if not fuel or s.orelse:
                raise Unsupported("while without a fuel bound")
            head = [ind + "for _ in List.range (%s) do" % fuel,
                    ind + "  if ¬ %s then break" % self.cond(s.test)]
            return head + self.block(s.body, ind + "  ")
        if isinstance(s, ast.If):
            out = [ind + "if %s then" % self.cond(s.test)] + self.block(s.body, ind + "  ")
            if s.orelse:
                if len(s.orelse) == 1 and isinstance(s.orelse[0], ast.If):
                    rest = self.stmt(s.orelse[0], ind)
                    rest[0] = ind + "else " + rest[0].strip()
                    out += rest
                else:
                    out += [ind + "else"] + self.block(s.orelse, ind + "  ")
            return out
        if isinstance(s, ast.Return):
            if s.value is None:
                return [ind + self.ret("none")]
            if isinstance(s.value, ast.Constant) and s.value.value is None:
                return [ind + "return none" if not self.option else ind + "none"]
            if isinstance(s.value, ast.Tuple) and s.value.elts and \
                    all(isinstance(x, ast.Constant) and x.value is None for x in s.value.elts):
                if not self.option:
                    raise Unsupported("tuple of None in a total function")
                return [ind + "none"]               # (None, ..., None): "no result", like None
            val = s.value
            if self.ctor_returns and isinstance(val, ast.Call) and isinstance(val.func, ast.Name) and \
                    val.func.id == self.ctor_returns and len(val.args) == 1:
                val = val.args[0]                   # cls(cmds): the object is its command list
            if self.stream:
                return [ind + "return (%s, %s)" % (self.expr(val), self.stream)]
            return [ind + self.ret(self.expr(val))]
        if isinstance(s, ast.Break):
            return [ind + "break"]
        if isinstance(s, ast.Continue):
            return [ind + "continue"]
        if isinstance(s, ast.Raise):
            if not self.option:
                raise Unsupported("raise in total function")
            return [ind + "none"]
        raise Unsupported("statement " + type(s).__name__)

    def emit(self):
        args = " ".join("(%s : %s)" % (self.ident(a), t) for a, t in list(self.extra) + list(self.args))
        body = self.block(self.node.body, "  ")
        assigned = {t.id for n in ast.walk(self.node) if isinstance(n, (ast.Assign, ast.AugAssign))
                    for t in (n.targets if isinstance(n, ast.Assign) else [n.target]) if isinstance(t, ast.Name)}
        if self.stream:
            assigned.add(self.stream)
        for a, _ in reversed(self.args):            # a parameter that the body re-assigns becomes a mutable local
            if a in assigned and a not in self.retype:
                body.insert(0, "  let mut %s := %s" % (self.ident(a), self.ident(a)))
        if self.rettype == "Option Unit":
            body.append("  return ()")
        if self.option:
            head = "def %s %s : %s := do" % (self.name, args, self.rettype)
        else:
            head = "def %s %s : %s := Id.run do" % (self.name, args, self.rettype)
        note = ""
        if self.nat_subs:
            note = "-- Nat subtractions (the equivalence proof must justify them): " + "; ".join(self.nat_subs) + "\n"
        return note + head + "\n" + "\n".join(body) + "\n"


def _src(node):
    return ast.unparse(node)


def custom_emit(kind, node, lean, args, ret):
    """Functions whose Python shape needs a dedicated rule (optional values, try/except, an object constructor).  Each
    rule first CHECKS that the source has exactly the shape it knows (else Unsupported), then emits the Lean text."""
    a = " ".join("(%s : %s)" % (x, t) for x, t in args)
    body = [n for n in node.body if not (isinstance(n, ast.Expr) and isinstance(n.value, ast.Constant))]
    if kind == "list_get":
        # try: return lst[i]  except IndexError: return None
        ok = (len(body) == 1 and isinstance(body[0], ast.Try) and len(body[0].body) == 1 and
              _src(body[0].body[0]) == "return lst[i]" and len(body[0].handlers) == 1 and
              _src(body[0].handlers[0].type) == "IndexError" and _src(body[0].handlers[0].body[0]) == "return None"
              and not body[0].orelse and not body[0].finalbody)
        if not ok:
            raise Unsupported("list_get has another shape")
        return "def %s %s : %s :=\n  lst[i]?\n" % (lean, a, ret)
    if kind == "integrity_check":
        want = ("none_found = False\nfor item in self._to_list():\n    if item is None:\n        none_found = True\n"
                "    else:\n        if none_found:\n            raise RuntimeError('integrity check failure')\n"
                "        if not isinstance(item, int):\n            raise ValueError('has to be int')")
        if "\n".join(_src(n) for n in body) != want:
            raise Unsupported("integrity_check has another shape")
        # (the isinstance test cannot fail for slots produced by convert_hardened: they are ints)
        return ("def %s %s : %s := do\n  let mut none_found := false\n  for item in slots do\n"
                "    if item = none then\n      none_found := true\n    else\n      if none_found = true then\n"
                "        none\n  return ()\n" % (lean, a, ret))
    if kind == "path_parse":
        names = ["purpose", "coin_type", "account", "chain", "addr_index"]
        want = ["s_lst = s.split('/')", "if s_lst[0] not in ('m', 'M'):\n    raise ValueError('incorrect marker')"]
        want += ["%s = list_get(s_lst, %d)" % (n, i + 1) for i, n in enumerate(names)]
        ret_ = ("return cls(" + ", ".join("%s=cls.convert_hardened(%s) if %s else None" % (n, n, n) for n in names) +
                ", private=cls.is_private(sign=s_lst[0]))")
        want.append(ret_)
        if [_src(n) for n in body] != want:
            raise Unsupported("Bip32Path.parse has another shape")
        lines = ["def %s %s : %s := do" % (lean, a, ret),
                 "  let mut s_lst := (Text.splitOn (Char.ofNat 47) s)",
                 "  if ((s_lst[0]!) ∉ [[Char.ofNat 109], [Char.ofNat 77]]) then",
                 "    none"]
        for i, n in enumerate(names):
            lines.append("  let mut %s := (list_get s_lst %d)" % (n, i + 1))
        for n in names:
            # `convert_hardened(x) if x else None`: None and the empty string are falsy
            lines.append("  let mut v_%s ← (if (%s ≠ none ∧ %s ≠ some []) then (do let x ← (convert_hardened (%s.getD [])); pure (some x)) "
                         "else pure none : Option (Option Nat))" % (n, n, n, n))
        slots = "[" + ", ".join("v_" + n for n in names) + "]"
        lines.append("  let _ := (← (integrity_check %s))        -- Bip32Path.__init__ stores the five slots and runs integrity_check" % slots)
        lines.append("  return (%s, (is_private (s_lst[0]!)))" % slots)
        return "\n".join(lines) + "\n"
    raise Unsupported("no custom rule " + kind)


def find_function(tree, qual):
    parts = qual.split(".")
    nodes = tree.body
    for i, p in enumerate(parts):
        hit = None
        for n in nodes:
            if isinstance(n, (ast.FunctionDef, ast.ClassDef)) and n.name == p:
                hit = n
        if hit is None:
            return None
        nodes = hit.body
    return hit


def translate_all():
    chunks = []
    status = {}
    for pyfile, qual, lean, args, ret, opts in TARGETS:      # Python default values of trailing parameters
        try:
            node = find_function(ast.parse(open(os.path.join(REPO, "btc_hd_wallet", pyfile), encoding="utf-8").read()), qual)
            PY_DEFAULTS[lean] = list(node.args.defaults) if node is not None else []
        except Exception:
            PY_DEFAULTS[lean] = []
    for pyfile, qual, lean, args, ret, opts in TARGETS:
        src_path = os.path.join(REPO, "btc_hd_wallet", pyfile)
        try:
            tree = ast.parse(open(src_path, encoding="utf-8").read())
            node = find_function(tree, qual)
            if node is None:
                raise Unsupported("function not found")
            # drop `self`/`cls`
            pyargs = [a.arg for a in node.args.args if a.arg not in ("self", "cls")]
            if False:
                raise Unsupported("signature changed: %s" % pyargs)
            if pyargs != [a for a, _ in args] and not opts.get("self_attrs") and not opts.get("custom"):
                raise Unsupported("parameter names changed: %s" % pyargs)
            if opts.get("custom"):
                txt = custom_emit(opts["custom"], node, lean, args, ret)
            else:
                txt = Fn(node, lean, args, ret, opts).emit()
            status[lean] = "ok"
        except Unsupported as e:
            a = " ".join("(%s : %s)" % (x, t) for x, t in list(opts.get("extra", [])) + list(args))
            txt = ("-- TRANSLATION FAILED for %s: %s\n"
                   "def %s %s : %s := translationFailed _\n" % (qual, e, lean, a, ret))
            status[lean] = "FAILED: %s" % e
        chunks.append("/-- translated from `%s` : `%s` -/\n%s" % (pyfile, qual, txt))
    hdr = ("-- GENERATED by harness/translate.py from /repo's working tree. Do not edit.\n"
           "import BtcHd.Model.Bech32\nimport BtcHd.Model.Text\nimport BtcHd.Model.Bip39\nimport BtcHd.Model.PyBuiltins\n"
           "import BtcHd.Model.Script\nimport BtcHd.Model.Cli\nimport BtcHd.Generated.Misc\nimport BtcHd.Generated.Base58\n\n"
           "set_option linter.unusedVariables false\n\n"
           "namespace BtcHd.Code\nopen BtcHd\n\n"
           "/-- what an untranslatable function becomes: an opaque value nothing can be proved equal to -/\n"
           "opaque translationFailed (α : Type) [Inhabited α] : α\n\n")
    return hdr + "\n".join(chunks) + "\nend BtcHd.Code\n", status


def main():
    text, status = translate_all()
    old = open(OUT, encoding="utf-8").read() if os.path.exists(OUT) else None
    if old != text:
        tmp = OUT + ".tmp%d" % os.getpid()
        open(tmp, "w", encoding="utf-8").write(text)
        os.replace(tmp, OUT)
    bad = {k: v for k, v in status.items() if v != "ok"}
    print("translate: %d functions, %s%s" % (len(status), "changed" if old != text else "unchanged",
                                            (" ; FAILED: %s" % bad) if bad else ""))
    return status


if __name__ == "__main__":
    main()
